//! C20 — the command-line tool's exit status and outputs tell the truth.
//!
//! Two exhaustively enumerated spaces, every case = real `warcraft-rs` processes ($VERIF_CLI):
//!  * `roundtrip` (clause i): file set x create options x extract options; extracted files are
//!    compared bit for bit with the inputs, `list` / `info` / `tree` output with the library's view.
//!  * `subcmd` (clause ii): every sub-command template of every format family x every seed of
//!    that family x every damage class; judged only by the sound, uniform rules of DESIGN.md C20.
//!  * `rebuildenc`, `blpdims` (clause ii on valid inputs with a particular feature): `mpq rebuild` x
//!    every option over sources with encrypted members; `blp validate [--strict]` x width x height.
mod optspaces;
mod oracle;
mod run;
mod seeds;
mod subcmd;

use oracle::*;
use run::*;
use serde_json::{json, Value};
use std::path::{Path, PathBuf};
use vcore::*;

// ====================================================================== space (i): round trip

pub struct FileSet {
    pub name: &'static str,
    pub files: Vec<(String, Vec<u8>)>,
}

fn filesets(tier: Tier) -> Vec<FileSet> {
    let c = |t: &str, n: usize, salt: u64| gen::content(t, n, 4096, salt);
    let mut v = vec![
        FileSet { name: "one", files: vec![("a.txt".into(), c("period251", 40, 1))] },
        FileSet { name: "three", files: vec![("a.txt".into(), c("period251", 40, 1)), ("table.dbc".into(), c("sparse", 700, 2)), ("Temp.blp".into(), c("period2", 5000, 3))] },
        FileSet {
            name: "twelve",
            files: [1usize, 2, 3, 100, 511, 512, 513, 4095, 4096, 4097, 10000, 20000]
                .iter()
                .enumerate()
                .map(|(i, n)| (format!("f{:02}_{}.bin", i, n), c(gen::TEXTURES[i % gen::TEXTURES.len()], *n, i as u64)))
                .collect(),
        },
        FileSet { name: "with-empty-file", files: vec![("empty.dat".into(), vec![]), ("x.txt".into(), c("constant", 10, 4))] },
        FileSet { name: "with-70KiB-file", files: vec![("big.bin".into(), c("half", 70 * 1024, 5)), ("small.txt".into(), c("period251", 5, 6))] },
        FileSet {
            name: "names-with-spaces",
            files: vec![("my file.txt".into(), c("period251", 33, 7)), ("a  b   c.dat".into(), c("sparse", 300, 8)), ("Program Files (x86) readme.TXT".into(), c("period2", 1000, 9))],
        },
    ];
    if tier == Tier::Thorough {
        v.push(FileSet { name: "forty", files: (0..40).map(|i| (format!("n{:03}.dat", i), c(gen::TEXTURES[i % gen::TEXTURES.len()], 17 * i + (i % 3), 100 + i as u64))).collect() });
        v.push(FileSet {
            name: "sector-boundaries-and-300KiB-incompressible",
            files: [16383usize, 16384, 16385, 32768, 300 * 1024].iter().enumerate().map(|(i, n)| (format!("s{}.raw", n), c(if i == 4 { "incompressible" } else { "half" }, *n, 200 + i as u64))).collect(),
        });
        v.push(FileSet {
            name: "case-dots-and-non-ascii-names",
            files: vec![
                ("UPPER.TXT".into(), c("period251", 20, 11)),
                ("MiXed.Case.Name".into(), c("sparse", 200, 12)),
                ("noext".into(), c("period2", 64, 13)),
                ("dots..in...name.x".into(), c("constant", 99, 14)),
                ("tilde~and-dash_underscore.bin".into(), c("half", 5000, 15)),
                ("\u{fc}n\u{ef}c\u{f6}d\u{e9}.txt".into(), c("period251", 77, 16)),
            ],
        });
        v.push(FileSet { name: "backslash-in-name", files: vec![("dir\\inner.txt".into(), c("period251", 50, 17)), ("plain.txt".into(), c("sparse", 150, 18))] });
    }
    v
}

const VERSIONS: [&str; 4] = ["v1", "v2", "v3", "v4"];
const COMPRESSIONS: [&str; 4] = ["none", "zlib", "bzip2", "lzma"];
const SELECTIONS: [&str; 3] = ["all", "explicit-names", "explicit-names-with-one-missing"];
const MISSING: &str = "no_such_member.bin";

struct RoundTrip {
    space: &'static str,
    sets: Vec<FileSet>,
    threads: Vec<Option<u32>>,
    /// allowed values per axis: selection, skip, listfile, compression, version
    allowed: [Vec<u64>; 5],
    radices: Vec<u64>,
    /// explicit selection names every `explicit_step`-th member
    explicit_step: usize,
    preserve: Vec<bool>,
}
impl RoundTrip {
    fn new(tier: Tier) -> Self {
        let sets = filesets(tier);
        let threads = tier.pick(vec![Some(1), Some(8)], vec![Some(1), Some(2), Some(8), None]);
        // simplest first: selection, skip, listfile, compression, version, file set
        let allowed = [vec![0, 1, 2], vec![0, 1], vec![0, 1], vec![0, 1, 2, 3], vec![0, 1, 2, 3]];
        Self::with("roundtrip", sets, threads, allowed, 2, vec![false, true])
    }
    /// file counts around the points where the tool and the library switch extraction strategy
    /// (batch size 10 / 25 / computed at > 1000 and > 5000 names; batched extraction at > 1000)
    fn many(tier: Tier) -> Self {
        let counts: Vec<usize> = tier.pick(vec![1000, 1001, 1030], vec![999, 1000, 1001, 1013, 1030, 2013, 5000, 5001, 5003, 5037]);
        let sets = counts
            .iter()
            .map(|&n| FileSet {
                name: Box::leak(format!("{n}-small-files").into_boxed_str()),
                files: (0..n).map(|i| (format!("m{:05}.dat", i), gen::content(gen::TEXTURES[i % gen::TEXTURES.len()], 1 + (i * 7) % 61, 4096, 1000 + i as u64))).collect(),
            })
            .collect();
        let threads = tier.pick(vec![Some(1), None], vec![Some(1), None]);
        let allowed = tier.pick(
            [vec![0, 1], vec![0], vec![1], vec![0, 1], vec![0, 3]],
            [vec![0, 1, 2], vec![0, 1], vec![0, 1], vec![0, 1], vec![0, 1, 2, 3]],
        );
        Self::with("manyfiles", sets, threads, allowed, 1, tier.pick(vec![false], vec![false, true]))
    }
    fn with(space: &'static str, sets: Vec<FileSet>, threads: Vec<Option<u32>>, allowed: [Vec<u64>; 5], explicit_step: usize, preserve: Vec<bool>) -> Self {
        let mut radices: Vec<u64> = allowed.iter().map(|a| a.len() as u64).collect();
        radices.push(sets.len() as u64);
        RoundTrip { space, sets, threads, allowed, radices, explicit_step, preserve }
    }
    fn digits(&self, i: u64) -> Vec<u64> {
        let mut d = gen::mixed_radix(i, &self.radices);
        for k in 0..5 {
            d[k] = self.allowed[k][d[k] as usize];
        }
        d
    }
}

/// where an extracted member may legitimately land (flat or with its directory part)
fn landing_places(out: &Path, member: &str) -> Vec<PathBuf> {
    let sys = member.replace('\\', "/");
    let base = sys.rsplit('/').next().unwrap_or(&sys).to_string();
    let mut v = vec![out.join(&sys), out.join(&base)];
    if member.contains('\\') {
        v.push(out.join(member));
    }
    v.dedup();
    v
}

fn first_line_value<'a>(text: &'a str, key: &str) -> Option<&'a str> {
    for l in text.lines() {
        if let Some(p) = l.find(key) {
            return Some(l[p + key.len()..].trim());
        }
    }
    None
}

impl Space for RoundTrip {
    fn len(&self) -> u64 {
        gen::product(&self.radices)
    }
    fn describe(&self, i: u64) -> Value {
        let d = self.digits(i);
        let fs = &self.sets[d[5] as usize];
        json!({
            "space": self.space,
            "fileset": fs.name,
            "files": if fs.files.len() > 50 { vec![format!("{} files m00000.dat.. of 1..61 bytes", fs.files.len())] } else { fs.files.iter().map(|(n, b)| format!("{n}:{}", b.len())).collect::<Vec<_>>() },
            "version": VERSIONS[d[4] as usize],
            "compression": COMPRESSIONS[d[3] as usize],
            "with_listfile": d[2] == 1,
            "skip_errors": d[1] == 1,
            "selection": SELECTIONS[d[0] as usize],
            "inner": format!("threads {:?} x preserve-paths {:?}", self.threads, self.preserve),
        })
    }
    fn case_timeout(&self) -> u64 {
        300
    }
    fn run(&self, i: u64) -> CaseResult {
        let d = self.digits(i);
        let (sel, skip, lf, comp, ver) = (d[0] as usize, d[1] == 1, d[2] == 1, COMPRESSIONS[d[3] as usize], VERSIONS[d[4] as usize]);
        let fs = &self.sets[d[5] as usize];
        let mut r = CaseResult::new();
        r.key = format!("{}{i}", if self.space == "roundtrip" { "rt" } else { "mf" });
        let scratch = Scratch::new(&scratch_tag());
        let rn = Runner::new(&scratch.0, 60);
        let indir = rn.cwd.join("in");
        std::fs::create_dir_all(&indir).unwrap();
        for (n, b) in &fs.files {
            std::fs::write(indir.join(n), b).expect("write input");
        }
        // ---- create
        let mut args: Vec<String> = vec!["mpq".into(), "create".into(), "a.mpq".into()];
        for (n, _) in &fs.files {
            args.push("--add".into());
            args.push(format!("in/{n}"));
        }
        args.extend(["--version".to_string(), ver.into(), "--compression".into(), comp.into()]);
        if lf {
            args.push("--with-listfile".into());
        }
        let o = rn.run(&args);
        r.count("processes", 1);
        let apath = rn.cwd.join("a.mpq");
        if !o.ok() {
            r.err_return = true;
            r.outcome = format!("create:{}", o.class());
            r.count("create_refused", 1);
            return r;
        }
        let view = match mpq_view(&apath, false) {
            Ok(v) => v,
            Err(e) => {
                r.viol("mpq create: exit 0 but the archive is missing or the library cannot open it", format!("{e}; {}", o.brief()));
                r.nontrivial = true;
                r.outcome = "create-bad".into();
                return r;
            }
        };
        r.nontrivial = true;
        // the archive the tool reported as created must hold every input under its file name
        match mpq_has(&apath, &fs.files.iter().map(|(n, _)| n.clone()).collect::<Vec<_>>()) {
            Ok(absent) if !absent.is_empty() => r.viol("mpq create: exit 0 but input files are not in the archive (library find_file)", format!("absent: {absent:?}; {}", o.brief())),
            _ => {}
        }
        // ---- list / info / tree agree with the library's view (once per archive configuration)
        if sel == 0 && !skip {
            let o = rn.run(&["mpq".into(), "list".into(), "a.mpq".into()]);
            r.count("processes", 1);
            if o.ok() {
                let mut got: Vec<String> = o.stdout.lines().map(|l| l.to_string()).filter(|l| !l.is_empty()).collect();
                got.sort();
                let mut want = view.names.clone();
                want.sort();
                if got != want {
                    r.viol("mpq list: printed names differ from the library's list()", format!("printed {:?} library {:?}", got, want));
                }
                r.count("list_compared", 1);
            } else {
                r.count("list_refused", 1);
            }
            let o = rn.run(&["mpq".into(), "info".into(), "a.mpq".into()]);
            r.count("processes", 1);
            if o.ok() {
                let fv = first_line_value(&o.stdout, "Format version:").unwrap_or("<absent>").to_string();
                let fc = first_line_value(&o.stdout, "Number of files:").unwrap_or("<absent>").to_string();
                if fv != view.version {
                    r.viol("mpq info: format version differs from the library's get_info()", format!("printed {fv:?} library {:?}", view.version));
                }
                if fc != view.file_count.to_string() {
                    r.viol("mpq info: number of files differs from the library's get_info()", format!("printed {fc:?} library {}", view.file_count));
                }
                r.count("info_compared", 1);
            } else {
                r.count("info_refused", 1);
            }
            let o = rn.run(&["mpq".into(), "validate".into(), "a.mpq".into()]);
            r.count("processes", 1);
            if o.ok() {
                if let Ok((n, first)) = validation_errors(Kind::Mpq, &apath, None) {
                    if n > 0 {
                        r.viol("mpq validate: exit 0 although the library-level validation it wraps reports errors", format!("fresh archive: {n} error(s), first: {first}; {}", o.brief()));
                    }
                }
                r.count("validate_compared", 1);
            } else {
                r.count("validate_refused", 1);
            }
            // `mpq tree` costs seconds to minutes on a thousand members and only the sector size is compared: small sets only
            let small = fs.files.len() <= 100;
            let o = if small { rn.run(&["mpq".into(), "tree".into(), "a.mpq".into(), "--no-color".into()]) } else { o };
            r.count("processes", small as u64);
            if !small {
                r.count("tree_skipped_large_set", 1);
            } else if o.ok() {
                let ss = first_line_value(&o.stdout, "sector_size:").unwrap_or("<absent>").to_string();
                if ss != view.sector_size.to_string() {
                    r.viol("mpq tree: sector size differs from the library's get_info()", format!("printed {ss:?} library {}", view.sector_size));
                }
                r.count("tree_compared", 1);
            } else {
                r.count("tree_refused", 1);
            }
        }
        // ---- extract
        let explicit: Vec<&(String, Vec<u8>)> = fs.files.iter().step_by(self.explicit_step).collect();
        let mut oc = String::new();
        for (ti, t) in self.threads.iter().enumerate() {
            for &preserve in &self.preserve {
                let od = format!("o{ti}{}", preserve as u8);
                let mut args: Vec<String> = vec!["mpq".into(), "extract".into(), "a.mpq".into(), "-o".into(), od.clone()];
                let mut expected: Vec<&(String, Vec<u8>)> = vec![];
                match sel {
                    0 => {
                        // judged for the members the library itself can name
                        expected = fs.files.iter().filter(|(n, _)| view.names.iter().any(|x| x == n)).collect();
                    }
                    _ => {
                        for (k, f) in explicit.iter().enumerate() {
                            if sel == 2 && k == explicit.len() / 2 {
                                args.push(MISSING.into());
                            }
                            args.push(f.0.clone());
                            expected.push(f);
                        }
                    }
                }
                if let Some(t) = t {
                    args.push("--threads".into());
                    args.push(t.to_string());
                }
                if preserve {
                    args.push("-p".into());
                }
                if skip {
                    args.push("--skip-errors".into());
                }
                let o = rn.run(&args);
                r.count("processes", 1);
                r.count("extractions", 1);
                let ctx = format!("threads={t:?} preserve={preserve}");
                if !oc.contains(o.class()) {
                    oc.push_str(o.class());
                }
                if sel == 2 && !skip {
                    if o.ok() {
                        r.viol("mpq extract: exit 0 although an explicitly requested name is missing and --skip-errors is off", format!("{ctx}: {}", o.brief()));
                    }
                    continue;
                }
                if !o.ok() {
                    r.err_return = true;
                    r.count("extract_refused", 1);
                    continue;
                }
                let outdir = rn.cwd.join(&od);
                for (n, want) in expected {
                    let got = landing_places(&outdir, n).into_iter().find_map(|p| std::fs::read(p).ok());
                    match got {
                        None => r.viol("mpq extract: exit 0 but a requested member is not in the output directory", format!("{ctx}: member {n:?}; {}", o.brief())),
                        Some(g) if &g != want => r.viol(
                            "mpq extract: exit 0 but an extracted file differs from the input that was archived",
                            format!("{ctx}: member {n:?}: {} bytes extracted, {} bytes archived, first difference at {:?}", g.len(), want.len(), g.iter().zip(want.iter()).position(|(a, b)| a != b)),
                        ),
                        Some(_) => r.count("files_compared", 1),
                    }
                }
                let _ = std::fs::remove_dir_all(&outdir);
            }
        }
        // ---- the same selection through a patch chain: a second archive holding one more member
        // (chain extraction is a separate code path of the tool; judged by the same rules)
        if fs.files.len() <= 100 && !fs.files.is_empty() {
            let extra_name = "chain_only_member.bin";
            let extra = gen::content("period251", 123, 4096, 77);
            std::fs::write(indir.join(extra_name), &extra).expect("write input");
            let o = rn.run(&["mpq".into(), "create".into(), "p.mpq".into(), "--add".into(), format!("in/{extra_name}"), "--version".into(), ver.into(), "--compression".into(), comp.into(), "--with-listfile".into()]);
            r.count("processes", 1);
            if o.ok() {
                for preserve in [false, true] {
                    let od = format!("c{}", preserve as u8);
                    let mut args: Vec<String> = vec!["mpq".into(), "extract".into(), "a.mpq".into(), "--patch".into(), "p.mpq".into(), "-o".into(), od.clone()];
                    let mut expected: Vec<(String, Vec<u8>)> = vec![];
                    match sel {
                        0 => {
                            expected = fs.files.iter().filter(|(n, _)| view.names.iter().any(|x| x == n)).cloned().collect();
                        }
                        _ => {
                            for (k, f) in explicit.iter().enumerate() {
                                if sel == 2 && k == explicit.len() / 2 {
                                    args.push(MISSING.into());
                                }
                                args.push(f.0.clone());
                                expected.push((f.0.clone(), f.1.clone()));
                            }
                            args.push(extra_name.into());
                            expected.push((extra_name.into(), extra.clone()));
                        }
                    }
                    if preserve {
                        args.push("-p".into());
                    }
                    if skip {
                        args.push("--skip-errors".into());
                    }
                    let o = rn.run(&args);
                    r.count("processes", 1);
                    r.count("chain_extractions", 1);
                    let ctx = format!("patch chain, preserve={preserve}");
                    if sel == 2 && !skip {
                        if o.ok() {
                            r.viol("mpq extract --patch: exit 0 although an explicitly requested name is missing and --skip-errors is off", format!("{ctx}: {}", o.brief()));
                        }
                        continue;
                    }
                    if !o.ok() {
                        r.err_return = true;
                        r.count("chain_extract_refused", 1);
                        continue;
                    }
                    let outdir = rn.cwd.join(&od);
                    for (n, want) in &expected {
                        match landing_places(&outdir, n).into_iter().find_map(|p| std::fs::read(p).ok()) {
                            None => r.viol("mpq extract --patch: exit 0 but a requested member is not in the output directory", format!("{ctx}: member {n:?}; {}", o.brief())),
                            Some(g) if &g != want => r.viol("mpq extract --patch: exit 0 but an extracted file differs from the input that was archived", format!("{ctx}: member {n:?}: {} bytes extracted, {} bytes archived", g.len(), want.len())),
                            Some(_) => r.count("files_compared", 1),
                        }
                    }
                    let _ = std::fs::remove_dir_all(&outdir);
                }
            } else {
                r.count("chain_patch_archive_refused", 1);
            }
        }
        r.outcome = format!("extract:{oc}");
        r
    }
}

// ====================================================================== space (i-b): list --filter

/// `mpq list --filter P` must print exactly the library's names that match P. The matcher below is the
/// plain reading of the option's help text ("supports wildcards"): `*` matches any run of characters, the
/// rest is literal and case-insensitive, the whole name must match; a pattern without `*` is a substring
/// search (the tool's documented fallback). Names: every order of three tokens; patterns: every order of
/// one, two and three tokens with `*` in every subset of the gaps and ends.
struct ListFilter {
    names: Vec<String>,
    patterns: Vec<String>,
}
fn glob(p: &[u8], t: &[u8]) -> bool {
    match p.split_first() {
        None => t.is_empty(),
        Some((b'*', rest)) => (0..=t.len()).any(|k| glob(rest, &t[k..])),
        Some((c, rest)) => t.first().map(|x| x.eq_ignore_ascii_case(c)).unwrap_or(false) && glob(rest, &t[1..]),
    }
}
impl ListFilter {
    fn new(tier: Tier) -> ListFilter {
        let toks = ["interface", "map", "ui"];
        let mut names = vec![];
        let perms: [[usize; 3]; 6] = [[0, 1, 2], [0, 2, 1], [1, 0, 2], [1, 2, 0], [2, 0, 1], [2, 1, 0]];
        for p in perms {
            names.push(format!("{}_{}_{}.blp", toks[p[0]], toks[p[1]], toks[p[2]]));
            names.push(format!("{}\\{}{}.TXT", toks[p[0]].to_uppercase(), toks[p[1]], toks[p[2]]));
        }
        names.push("ui".into());
        names.push("mapmap.bin".into());
        let mut patterns: Vec<String> = vec!["*".into(), "".into()];
        let mut seqs: Vec<Vec<usize>> = vec![];
        for a in 0..3 {
            seqs.push(vec![a]);
            for b in 0..3 {
                seqs.push(vec![a, b]);
                for c in 0..3 {
                    if tier == Tier::Thorough || (a != b && b != c && a != c) {
                        seqs.push(vec![a, b, c]);
                    }
                }
            }
        }
        for sq in seqs {
            // a star in every gap; leading / trailing star in all four combinations
            let mid: String = sq.iter().map(|&k| toks[k]).collect::<Vec<_>>().join("*");
            for (l, t) in [(false, false), (true, false), (false, true), (true, true)] {
                patterns.push(format!("{}{}{}", if l { "*" } else { "" }, mid, if t { "*" } else { "" }));
            }
        }
        // plain (star-less) filters are substring searches whatever the case of the pattern
        for t in ["MAP", "Ui", "INTERFACE", "Interface_Map", "BLP", ".Txt"] {
            patterns.push(t.into());
        }
        patterns.push("MAP*.blp".into());
        patterns.push("*.txt".into());
        patterns.push("**ui**".into());
        patterns.sort();
        patterns.dedup();
        ListFilter { names, patterns }
    }
}
impl Space for ListFilter {
    fn len(&self) -> u64 {
        self.patterns.len() as u64
    }
    fn describe(&self, i: u64) -> Value {
        json!({"space": "listfilter", "pattern": self.patterns[i as usize], "names": self.names.len()})
    }
    fn run(&self, i: u64) -> CaseResult {
        let pat = &self.patterns[i as usize];
        let mut r = CaseResult::new();
        r.key = format!("lf{i}");
        let scratch = Scratch::new(&scratch_tag());
        let rn = Runner::new(&scratch.0, 60);
        let indir = rn.cwd.join("in");
        std::fs::create_dir_all(&indir).unwrap();
        // the archive is written by the library (names with directories), the tool only lists it
        let apath = rn.cwd.join("a.mpq");
        let mut b = wow_mpq::ArchiveBuilder::new().listfile_option(wow_mpq::ListfileOption::Generate);
        for (k, n) in self.names.iter().enumerate() {
            b = b.add_file_data(vec![k as u8; 3 + k], n);
        }
        b.build(&apath).expect("build list archive");
        let view = match mpq_view(&apath, false) {
            Ok(v) => v,
            Err(e) => {
                r.viol("listfilter: library cannot open its own archive", e);
                return r;
            }
        };
        let mut args: Vec<String> = vec!["mpq".into(), "list".into(), "a.mpq".into()];
        if !pat.is_empty() {
            args.push("--filter".into());
            args.push(pat.clone());
        }
        let o = rn.run(&args);
        r.count("processes", 1);
        r.nontrivial = true;
        if !o.ok() {
            r.err_return = true;
            r.outcome = format!("list:{}", o.class());
            return r;
        }
        // an empty result is reported as a sentence, not as an empty listing
        let mut got: Vec<String> = o.stdout.lines().map(|l| l.to_string()).filter(|l| !l.is_empty() && !l.starts_with("No files found")).collect();
        got.sort();
        let mut want: Vec<String> = view
            .names
            .iter()
            .filter(|n| if pat.is_empty() { true } else if pat.contains('*') { glob(pat.as_bytes(), n.as_bytes()) } else { n.to_lowercase().contains(&pat.to_lowercase()) })
            .cloned()
            .collect();
        want.sort();
        r.outcome = format!("listed:{}", got.len().min(3));
        if got != want {
            r.viol("mpq list --filter: printed names differ from the library's names that match the pattern", format!("pattern {pat:?}: printed {got:?}, matching {want:?}"));
        }
        r.count("filtered_lists_compared", 1);
        r
    }
}

// ====================================================================== driver

fn build(name: &str, _arg: &str, tier: Tier) -> Box<dyn Space> {
    match name {
        "roundtrip" => Box::new(RoundTrip::new(tier)),
        "manyfiles" => Box::new(RoundTrip::many(tier)),
        "listfilter" => Box::new(ListFilter::new(tier)),
        "subcmd" => Box::new(subcmd::SubCmd::new(tier)),
        "rebuildenc" => Box::new(optspaces::RebuildEnc::new(tier)),
        "blpdims" => Box::new(optspaces::BlpDims::new(tier)),
        _ => panic!("space {name}"),
    }
}

fn dump_seeds(dir: &str) {
    let d = Path::new(dir);
    std::fs::create_dir_all(d).unwrap();
    for (_, ss) in subcmd::all_seeds(d) {
        for s in ss {
            let p = d.join(format!("{}.{}", s.name, s.ext));
            std::fs::write(&p, &s.bytes).unwrap();
            for (n, b) in &s.side {
                std::fs::write(d.join(n), b).unwrap();
            }
            println!("{} {}", p.display(), s.bytes.len());
        }
    }
}

fn main() {
    let args: Vec<String> = std::env::args().collect();
    if args.len() >= 3 && args[1] == "--dump-seeds" {
        dump_seeds(&args[2]);
        return;
    }
    if args.len() >= 2 && args[1] == "--repro" {
        subcmd::repro();
        return;
    }
    if args.len() >= 4 && args[1] == "--survey" {
        // c20 --survey <space> <quick|thorough> [substring of the case descriptor]
        install_panic_hook();
        let tier = if args[3] == "thorough" { Tier::Thorough } else { Tier::Quick };
        let spb = build(&args[2], "", tier);
        let sp: &dyn Space = &*spb;
        let filt = args.get(4).cloned().unwrap_or_default();
        let n = sp.len();
        let next = std::sync::atomic::AtomicU64::new(0);
        std::thread::scope(|s| {
            for _ in 0..12 {
                s.spawn(|| loop {
                    let i = next.fetch_add(1, std::sync::atomic::Ordering::SeqCst);
                    if i >= n {
                        break;
                    }
                    let d = sp.describe(i).to_string();
                    if !d.contains(&filt) {
                        continue;
                    }
                    let r = sp.run(i);
                    let v: Vec<String> = r.viols.iter().map(|v| format!("\n      VIOL {} :: {}", v.symptom, v.detail)).collect();
                    println!("{i:6} {:40} err={} {d}{}", r.outcome, r.err_return, v.join(""));
                });
            }
        });
        return;
    }
    if args.len() >= 2 && args[1] == "--templates" {
        subcmd::print_templates();
        return;
    }
    let cli = cli_path();
    if !cli.is_file() {
        eprintln!("MACHINERY-ERROR: command-line tool not found at {} (set VERIF_CLI or build it: cd /repo && CARGO_TARGET_DIR=/verif/.target/repo-cli cargo build --offline -p warcraft-rs)", cli.display());
        std::process::exit(2);
    }
    let Mode::Supervisor(mut c) = start("C20", "exploration", build) else { return };
    let tier = c.tier;
    let renc = optspaces::RebuildEnc::new(tier);
    let bdims = optspaces::BlpDims::new(tier);
    c.rule = format!(
        "space roundtrip (clause i): FULL PRODUCT file set ({nsets}: one / three / twelve sizes 1..20000 / with empty file / with 70 KiB file / names with spaces{more_sets}) x create --version {{v1..v4}} x --compression {{none,zlib,bzip2,lzma}} x --with-listfile {{off,on}} x extract selection {{all, explicit names (every other member), explicit names incl. one missing}} x --skip-errors {{off,on}}; inside each case --threads {threads} x --preserve-paths {{off,on}} (one `mpq extract` process each), the same selection once more through `--patch` with a second archive holding one more member (x preserve-paths), and for selection=all/skip=off also `mpq list`, `mpq info`, `mpq tree` compared with the library's list()/get_info(). \
         space manyfiles (clause i): the same round trip on archives of {many} small files (1..61 bytes each), the member counts at which the tool and the library change extraction strategy (batch size 10 / 25 / computed, batched extraction above 1000 names), {many_axes}; explicit selection names every member. \
         space listfilter (clause i, list agrees with the library): `mpq list --filter P` on a library-built archive of 14 names (every order of three tokens, two spellings) for every pattern made of 1..3 tokens with `*` in the gaps and at the ends; printed names must equal the library's names that match P (`*` = any run, case-insensitive, whole name; no `*` = substring). \
         space subcmd (clause ii): EVERY (sub-command template x seed of its input family x damage class): {ntpl} templates over mpq/dbc/dbd/blp/m2(+skin,anim)/wmo/adt/wdt/wdl (every sub-command found with --help at every level, convert over all target versions), seeds from each crate's own writer/builder, damage classes {dmg}. \
         space rebuildenc (clause ii, exit 0 => complete output, on sources the damage classes cannot produce): FULL PRODUCT `mpq rebuild SRC DST` option variant ({nvar}: {vars}) x member layout ({nlay}: {lays}; members stored plain / ENCRYPTED / ENCRYPTED with the position-adjusted key (FIX_KEY), single-unit and multi-sector) x source version {{v1..v4}} x {rots}; sources written by wow_mpq::ArchiveBuilder with a listfile, one `mpq rebuild` process per case; a case only starts when the library reads every member of the source back and sees the ENCRYPTED flag on exactly the requested members. Rule R6: exit 0 => the library opens the target and reads from it, bit-identical, every source file that the given options do not explicitly exclude (only --skip-encrypted excludes, and only encrypted files); presence of excluded files and a non-zero exit are not judged. \
         space blpdims (clause ii, failed validation => non-zero exit): FULL PRODUCT width {{1,2,3,6,48,64,100,128,256}} x height (same ladder) x mipmaps {bmips} x format {bfmts}; textures written by wow_blp::convert::image_to_blp + save_blp, inside each case `blp validate --strict` and `blp validate` (one process each), judged against the library's load_blp view of the header. Rule R7 (the tool's own documented rules): --strict and width or height not a power of two => exit != 0; DXT content with a side that is not a multiple of 4 => exit != 0 in both modes; both sides powers of two and none of the documented error rules applicable => exit 0 in both modes; exit 0 => no failure marker in its own output; the exit status of the lenient run on a non-power-of-two texture (documented as a warning) is observed, not judged. \
         Rules applied (and nothing else): R1 nonexistent/empty/garbage/truncated-below-8-bytes input => exit != 0; R2 validate/convert/export/extract/rebuild exit 0 => the library's own parse of the same bytes is Ok; R3 validate exit 0 => the library-level validation it wraps reports no error, and its own output carries no failure marker; R4 exit 0 with an output argument (and no 'No conversion needed'/'Preview mode'/'Dry run' statement) => output exists, is non-empty and the library parser for its format accepts it; R5 mpq extract / rebuild exit 0 (without --skip-errors) => every member the library lists is present and, where the library can read it, bit-identical. \
         A case is non-trivial when the tool was actually started on the prepared input and ended with an exit status; distinct by (template, seed, damage) resp. by the axis tuple.",
        nsets = filesets(tier).len(),
        many = tier.pick("{1000,1001,1030}", "{999,1000,1001,1013,1030,2013,5000,5001,5003,5037}"),
        many_axes = tier.pick("x selection {all, explicit} x version {v1,v4} x compression {none,zlib}, listfile on, threads {1,default}", "x selection {all, explicit, explicit+missing} x skip-errors x listfile x version {v1..v4} x compression {none,zlib}, threads {1,default} x preserve-paths"),
        more_sets = tier.pick("", " / forty files / sector-boundary sizes + 300 KiB incompressible / case, dots and non-ASCII names / backslash in name"),
        threads = tier.pick("{1,8}", "{1,2,8,default}"),
        ntpl = subcmd::templates().len(),
        dmg = subcmd::damage_names(tier).join(", "),
        nvar = renc.variant_labels().len(),
        vars = renc.variant_labels().join(" / "),
        nlay = renc.layout_names().len(),
        lays = renc.layout_names().join(" / "),
        rots = tier.pick("per-member source compression none/zlib alternating", "per-member source compression cycling none/zlib/bzip2 in all 3 rotations"),
        bmips = tier.pick("{off}", "{off,on}"),
        bfmts = tier.pick("{blp2 raw3}", "{blp2 raw3, blp1 raw1, blp2 raw1, blp1 jpeg, blp2 dxt1, blp2 dxt5}"),
    );
    c.assume(format!("tool under test: {} (dev profile, built from /repo's working tree by ./check); every process runs with cwd, HOME, XDG_* and TMPDIR inside a vcore::Scratch directory, a per-process timeout (20 s in subcmd, 60 s in roundtrip), RLIMIT_AS 8 GiB, MALLOC_ARENA_MAX=2", cli.display()));
    c.assume("the library's view (list(), get_info(), parse, validate) is taken in-process from the same /repo tree and only on bytes the tool itself exited 0 on; library correctness is the subject of C01-C18, here only agreement between tool and library is judged");
    c.assume("a non-zero exit where success was possible is a refusal (counted in error_returns), never a violation; timeouts and deaths by signal count as non-zero exits. The one exception is `blp validate` in space blpdims, whose exit status is its answer: a non-zero exit on a texture that none of its documented rules rejects is a false statement, not a refusal");
    c.assume("rebuildenc / blpdims: the input files come from the library's own writers (wow_mpq::ArchiveBuilder, wow_blp image_to_blp + save_blp); a writer refusal or a source the library cannot read back makes the case trivial (counted, not judged): writer correctness is the subject of C01-C03 / C13");
    c.run_space("roundtrip", "");
    c.run_space("manyfiles", "");
    c.run_space("listfilter", "");
    c.run_space("subcmd", "");
    c.run_space("rebuildenc", "");
    c.run_space("blpdims", "");
    let sets = filesets(tier);
    c.extra_cov.insert(
        "axes".into(),
        json!({
            "roundtrip": {"file_sets": sets.len(), "versions": 4, "compressions": 4, "listfile": 2, "selections": 3, "skip_errors": 2, "threads_inner": tier.pick(2, 4), "preserve_paths_inner": 2},
            "subcmd": subcmd::axes(tier),
            "rebuildenc": renc.axes(),
            "blpdims": bdims.axes(),
        }),
    );
    c.extra_cov.insert("completed_deviation_bound".into(), json!("full product in every space"));
    c.finish();
}
