//! Two option-driven spaces of clause ii ("exit zero => complete output", "failed validation =>
//! non-zero exit") whose inputs are *valid* files with a particular feature, the thing the damage
//! classes of `subcmd` cannot produce:
//!  * `rebuildenc`: `mpq rebuild` with every option the tool offers over library-built sources that
//!    hold ENCRYPTED members (plain key and position-adjusted key, single-unit and multi-sector,
//!    stored and compressed);
//!  * `blpdims`: `blp validate` with and without `--strict` over textures of every width x height
//!    of a ladder that mixes powers of two and other sizes.
use crate::oracle::*;
use crate::run::*;
use serde_json::{json, Value};
use vcore::*;

/// reason a case was not started (library-side refusal), shown only in the survey mode
fn why(msg: &str) {
    if std::env::var_os("C20_WHY").is_some() {
        eprintln!("      not started: {msg}");
    }
}

// ====================================================================== space rebuildenc

#[derive(Clone, Copy, Debug, PartialEq, Eq)]
enum Enc {
    Plain,
    /// FLAG_ENCRYPTED, key from the file name
    Key,
    /// FLAG_ENCRYPTED | FLAG_FIX_KEY: key adjusted by block position and file size
    FixKey,
}
impl Enc {
    fn tag(&self) -> &'static str {
        match self {
            Enc::Plain => "plain",
            Enc::Key => "encrypted",
            Enc::FixKey => "encrypted+fixkey",
        }
    }
}

struct Member {
    name: &'static str,
    len: usize,
    texture: &'static str,
    enc: Enc,
}
const fn m(name: &'static str, len: usize, texture: &'static str, enc: Enc) -> Member {
    Member { name, len, texture, enc }
}

struct Layout {
    name: &'static str,
    members: Vec<Member>,
}

fn layouts(tier: Tier) -> Vec<Layout> {
    use Enc::*;
    let mut v = vec![
        Layout { name: "one-encrypted-among-plain", members: vec![m("readme.txt", 40, "period251", Plain), m("data\\secret.bin", 9000, "half", Key), m("data\\table.dbc", 700, "sparse", Plain)] },
        Layout { name: "one-fixkey-among-plain", members: vec![m("readme.txt", 40, "period251", Plain), m("Interface\\Icons\\Locked.blp", 5000, "period2", FixKey), m("data\\table.dbc", 700, "sparse", Plain)] },
        Layout {
            name: "both-kinds-single-unit-and-multi-sector",
            members: vec![m("big_secret.bin", 70_000, "half", Key), m("small.fix", 100, "period251", FixKey), m("dir\\sub\\deep.key", 20_000, "sparse", FixKey), m("plain.txt", 33, "period251", Plain), m("tiny.enc", 1, "constant", Key)],
        },
        Layout { name: "all-encrypted", members: vec![m("a.bin", 511, "period2", Key), m("b.bin", 4096, "half", FixKey), m("c\\d.bin", 4097, "sparse", Key)] },
        Layout { name: "no-encrypted-file (control)", members: vec![m("readme.txt", 40, "period251", Plain), m("data\\table.dbc", 700, "sparse", Plain)] },
    ];
    if tier == Tier::Thorough {
        v.push(Layout {
            name: "sector-boundaries-and-empty-encrypted",
            members: vec![m("empty.enc", 0, "constant", Key), m("s4095.enc", 4095, "half", FixKey), m("s4096.enc", 4096, "half", Key), m("s8192.fix", 8192, "incompressible", FixKey), m("s8193.enc", 8193, "incompressible", Key), m("plain.txt", 33, "period251", Plain)],
        });
        v.push(Layout { name: "single-encrypted-file", members: vec![m("only.bin", 3000, "half", Key)] });
        v.push(Layout { name: "single-fixkey-file", members: vec![m("only.bin", 3000, "half", FixKey)] });
        v.push(Layout {
            name: "twelve-alternating",
            members: vec![
                m("f00.dat", 1, "constant", Key),
                m("f01.dat", 2, "period2", Plain),
                m("f02.dat", 3, "period251", FixKey),
                m("f03.dat", 100, "sparse", Key),
                m("f04.dat", 511, "half", Plain),
                m("f05.dat", 512, "period2", FixKey),
                m("f06.dat", 513, "period251", Key),
                m("f07.dat", 4095, "sparse", Plain),
                m("f08.dat", 4097, "half", FixKey),
                m("f09.dat", 10_000, "period2", Key),
                m("f10.dat", 20_000, "incompressible", Plain),
                m("f11.dat", 33_000, "half", FixKey),
            ],
        });
    }
    v
}

/// option variants of `mpq rebuild` (every option of `mpq rebuild --help` except the dry run, which
/// writes nothing), simplest first; `skip_encrypted` = the variant explicitly excludes encrypted files
struct Variant {
    label: &'static str,
    args: &'static [&'static str],
    skip_encrypted: bool,
}
const fn var(label: &'static str, args: &'static [&'static str], skip_encrypted: bool) -> Variant {
    Variant { label, args, skip_encrypted }
}
fn variants(tier: Tier) -> Vec<Variant> {
    let mut v = vec![
        var("default", &[], false),
        var("skip-encrypted", &["--skip-encrypted"], true),
        var("skip-signatures", &["--skip-signatures"], false),
        var("verify", &["--verify"], false),
        var("preserve-format", &["--preserve-format"], false),
        var("upgrade-to v1", &["--upgrade-to", "v1"], false),
        var("upgrade-to v2", &["--upgrade-to", "v2"], false),
        var("upgrade-to v3", &["--upgrade-to", "v3"], false),
        var("upgrade-to v4", &["--upgrade-to", "v4"], false),
        var("compression none", &["--compression", "none"], false),
        var("compression zlib", &["--compression", "zlib"], false),
        var("compression bzip2", &["--compression", "bzip2"], false),
        var("compression lzma", &["--compression", "lzma"], false),
        var("block-size 4", &["--block-size", "4"], false),
        var("skip-encrypted verify", &["--skip-encrypted", "--verify"], true),
        var("skip-encrypted skip-signatures", &["--skip-encrypted", "--skip-signatures"], true),
    ];
    if tier == Tier::Thorough {
        v.extend([
            var("skip-signatures verify", &["--skip-signatures", "--verify"], false),
            var("block-size 1", &["--block-size", "1"], false),
            var("block-size 8", &["--block-size", "8"], false),
            var("verify upgrade-to v1 compression none", &["--verify", "--upgrade-to", "v1", "--compression", "none"], false),
            var("verify upgrade-to v4 compression bzip2", &["--verify", "--upgrade-to", "v4", "--compression", "bzip2"], false),
            var("verify upgrade-to v3 compression lzma block-size 5", &["--verify", "--upgrade-to", "v3", "--compression", "lzma", "--block-size", "5"], false),
            var("skip-encrypted upgrade-to v4 compression zlib", &["--skip-encrypted", "--upgrade-to", "v4", "--compression", "zlib"], true),
            var("skip-encrypted skip-signatures verify preserve-format", &["--skip-encrypted", "--skip-signatures", "--verify", "--preserve-format"], true),
        ]);
    }
    v
}

const SRC_VERSIONS: [&str; 4] = ["v1", "v2", "v3", "v4"];
const SRC_COMPRESSIONS: [&str; 3] = ["none", "zlib", "bzip2"];

pub struct RebuildEnc {
    layouts: Vec<Layout>,
    variants: Vec<Variant>,
    /// rotations of the per-member compression cycle
    shifts: u64,
    comp_cycle: usize,
    radices: Vec<u64>,
}
impl RebuildEnc {
    pub fn new(tier: Tier) -> Self {
        let layouts = layouts(tier);
        let variants = variants(tier);
        // member k of the source is stored with compression cycle[(k + shift) % len]:
        // quick none/zlib alternating in one rotation, thorough none/zlib/bzip2 in all three
        let (shifts, comp_cycle) = tier.pick((1, 2), (3, 3));
        // simplest first: option variant, layout, source version, compression rotation
        let radices = vec![variants.len() as u64, layouts.len() as u64, SRC_VERSIONS.len() as u64, shifts];
        RebuildEnc { layouts, variants, shifts, comp_cycle, radices }
    }
    pub fn axes(&self) -> Value {
        json!({"option_variants": self.variants.len(), "member_layouts": self.layouts.len(), "source_versions": SRC_VERSIONS.len(), "compression_rotations": self.shifts, "cases": self.len()})
    }
    pub fn variant_labels(&self) -> Vec<&'static str> {
        self.variants.iter().map(|v| v.label).collect()
    }
    pub fn layout_names(&self) -> Vec<&'static str> {
        self.layouts.iter().map(|l| l.name).collect()
    }
    fn comp_of(&self, k: usize, shift: u64) -> usize {
        (k + shift as usize) % self.comp_cycle
    }
}

impl Space for RebuildEnc {
    fn len(&self) -> u64 {
        gen::product(&self.radices)
    }
    fn describe(&self, i: u64) -> Value {
        let d = gen::mixed_radix(i, &self.radices);
        let (va, lay, shift) = (&self.variants[d[0] as usize], &self.layouts[d[1] as usize], d[3]);
        json!({
            "space": "rebuildenc",
            "command": format!("mpq rebuild SRC DST {}", va.args.join(" ")).trim_end().to_string(),
            "options": va.label,
            "layout": lay.name,
            "members": lay.members.iter().enumerate().map(|(k, x)| format!("{}:{}:{}:{}", x.name, x.len, x.enc.tag(), SRC_COMPRESSIONS[self.comp_of(k, shift)])).collect::<Vec<_>>(),
            "source_version": SRC_VERSIONS[d[2] as usize],
        })
    }
    fn case_timeout(&self) -> u64 {
        120
    }
    fn run(&self, i: u64) -> CaseResult {
        use wow_mpq::{compression::flags, ArchiveBuilder, FormatVersion, ListfileOption};
        let d = gen::mixed_radix(i, &self.radices);
        let (va, lay, shift) = (&self.variants[d[0] as usize], &self.layouts[d[1] as usize], d[3]);
        let ver = [FormatVersion::V1, FormatVersion::V2, FormatVersion::V3, FormatVersion::V4][d[2] as usize];
        let mut r = CaseResult::new();
        r.key = format!("re{i}");
        let scratch = Scratch::new(&scratch_tag());
        let rn = Runner::new(&scratch.0, 60);
        // ---- the source: written by the library's own builder
        let files: Vec<(&Member, Vec<u8>)> = lay.members.iter().enumerate().map(|(k, x)| (x, gen::content(x.texture, x.len, 4096, 500 + k as u64))).collect();
        let src = rn.cwd.join("src.mpq");
        let dst = rn.cwd.join("dst.mpq");
        let mut b = ArchiveBuilder::new().version(ver).listfile_option(ListfileOption::Generate);
        for (k, (x, data)) in files.iter().enumerate() {
            let comp = [0u8, flags::ZLIB, flags::BZIP2][self.comp_of(k, shift)];
            b = match x.enc {
                Enc::Plain => b.add_file_data_with_options(data.clone(), x.name, comp, false, 0),
                Enc::Key => b.add_file_data_with_options(data.clone(), x.name, comp, true, 0),
                Enc::FixKey => b.add_file_data_with_encryption(data.clone(), x.name, comp, true, 0),
            };
        }
        if let Err(e) = b.build(&src) {
            // the builder's refusal is not the tool's business (builder correctness: C01-C03)
            r.outcome = "source-not-built".into();
            r.count("source_not_built_by_library", 1);
            why(&e.to_string());
            return r;
        }
        // the space is what it says only if the library reads every member of the source back and
        // sees the ENCRYPTED flag exactly on the members that asked for it
        let sane = g_source_check(&src, &files);
        if let Err(e) = sane {
            r.outcome = "source-not-readable".into();
            r.count("source_not_readable_by_library", 1);
            why(&e.to_string());
            return r;
        }
        r.count("encrypted_members_in_sources", files.iter().filter(|(x, _)| x.enc != Enc::Plain).count() as u64);
        // ---- the tool
        let mut args: Vec<String> = vec!["mpq".into(), "rebuild".into(), "src.mpq".into(), "dst.mpq".into()];
        args.extend(va.args.iter().map(|s| s.to_string()));
        let o = rn.run(&args);
        r.count("processes", 1);
        r.nontrivial = !o.timed_out;
        r.outcome = format!("rebuildenc/{}/{}", if va.skip_encrypted { "skip-encrypted" } else { "keep-all" }, o.class());
        let what = format!("mpq rebuild src.mpq dst.mpq {} on layout {} ({})", va.args.join(" "), lay.name, SRC_VERSIONS[d[2] as usize]);
        if !o.ok() {
            // a refusal of a readable source is counted, never judged (see assumptions)
            r.err_return = true;
            r.count("rebuild_refused_readable_source", 1);
            return r;
        }
        // ---- exit 0: the target is complete
        if let Err(e) = mpq_view(&dst, false) {
            r.viol("mpq rebuild: exit 0 but the target is missing or the library cannot open it", format!("{what}: {e}; {}", o.brief()));
            return r;
        }
        let mut lost = vec![];
        let mut differ = vec![];
        for (x, want) in &files {
            if va.skip_encrypted && x.enc != Enc::Plain {
                // explicitly excluded by the option: presence in the target is not judged
                r.count("members_excluded_by_option", 1);
                continue;
            }
            match mpq_read(&dst, x.name) {
                Err(e) => lost.push(format!("{} ({}): {e}", x.name, x.enc.tag())),
                Ok(g) if &g != want => differ.push(format!("{} ({}): {} bytes in target, {} in source, first difference at {:?}", x.name, x.enc.tag(), g.len(), want.len(), g.iter().zip(want.iter()).position(|(a, b)| a != b))),
                Ok(_) => r.count("files_compared", 1),
            }
        }
        if !lost.is_empty() {
            r.viol("mpq rebuild: exit 0 but source files that no given option excludes are missing from the target", format!("{what}: {lost:?}; {}", o.brief()));
        }
        if !differ.is_empty() {
            r.viol("mpq rebuild: exit 0 but files of the target differ from the source", format!("{what}: {differ:?}"));
        }
        r.count("rebuilds_judged", 1);
        r
    }
}

/// library's view of the source: every member reads back bit-identical and carries the ENCRYPTED
/// flag iff it was added as encrypted
fn g_source_check(src: &std::path::Path, files: &[(&Member, Vec<u8>)]) -> Result<(), String> {
    const FLAG_ENCRYPTED: u32 = 0x0001_0000;
    let listed: Vec<(String, u32)> = match guarded(|| -> Result<Vec<(String, u32)>, String> {
        let mut a = wow_mpq::Archive::open(src).map_err(|e| format!("open: {e}"))?;
        Ok(a.list().map_err(|e| format!("list: {e}"))?.into_iter().map(|e| (e.name, e.flags)).collect())
    }) {
        Ok(r) => r?,
        Err((f, l, msg)) => return Err(format!("library panicked at {f}:{l}: {msg}")),
    };
    for (x, want) in files {
        let got = mpq_read(src, x.name).map_err(|e| format!("{}: {e}", x.name))?;
        if &got != want {
            return Err(format!("{}: library reads other bytes than were added", x.name));
        }
        let flags = listed.iter().find(|(n, _)| n == x.name).map(|p| p.1).ok_or(format!("{}: not in list()", x.name))?;
        if (flags & FLAG_ENCRYPTED != 0) != (x.enc != Enc::Plain) {
            return Err(format!("{}: flags {flags:#x} do not match the requested encryption {}", x.name, x.enc.tag()));
        }
    }
    Ok(())
}

// ====================================================================== space blpdims

const SIZES: [u32; 9] = [1, 2, 3, 6, 48, 64, 100, 128, 256];

#[derive(Clone, Copy, Debug, PartialEq, Eq)]
enum Fmt {
    Blp2Raw3,
    Blp1Raw1,
    Blp2Raw1,
    Blp1Jpeg,
    Blp2Dxt1,
    Blp2Dxt5,
}
impl Fmt {
    fn name(&self) -> &'static str {
        match self {
            Fmt::Blp2Raw3 => "blp2 raw3",
            Fmt::Blp1Raw1 => "blp1 raw1",
            Fmt::Blp2Raw1 => "blp2 raw1",
            Fmt::Blp1Jpeg => "blp1 jpeg",
            Fmt::Blp2Dxt1 => "blp2 dxt1",
            Fmt::Blp2Dxt5 => "blp2 dxt5",
        }
    }
    fn target(&self) -> wow_blp::convert::BlpTarget {
        use wow_blp::convert::{AlphaBits, Blp2Format, BlpOldFormat, BlpTarget, DxtAlgorithm};
        match self {
            Fmt::Blp2Raw3 => BlpTarget::Blp2(Blp2Format::Raw3),
            Fmt::Blp1Raw1 => BlpTarget::Blp1(BlpOldFormat::Raw1 { alpha_bits: AlphaBits::Bit8 }),
            Fmt::Blp2Raw1 => BlpTarget::Blp2(Blp2Format::Raw1 { alpha_bits: AlphaBits::Bit1 }),
            Fmt::Blp1Jpeg => BlpTarget::Blp1(BlpOldFormat::Jpeg { has_alpha: false }),
            Fmt::Blp2Dxt1 => BlpTarget::Blp2(Blp2Format::Dxt1 { has_alpha: false, compress_algorithm: DxtAlgorithm::RangeFit }),
            Fmt::Blp2Dxt5 => BlpTarget::Blp2(Blp2Format::Dxt5 { has_alpha: true, compress_algorithm: DxtAlgorithm::RangeFit }),
        }
    }
}

pub struct BlpDims {
    fmts: Vec<Fmt>,
    mips: Vec<bool>,
    radices: Vec<u64>,
}
impl BlpDims {
    pub fn new(tier: Tier) -> Self {
        let fmts = tier.pick(vec![Fmt::Blp2Raw3], vec![Fmt::Blp2Raw3, Fmt::Blp1Raw1, Fmt::Blp2Raw1, Fmt::Blp1Jpeg, Fmt::Blp2Dxt1, Fmt::Blp2Dxt5]);
        let mips = tier.pick(vec![false], vec![false, true]);
        // simplest first: width, height, mipmaps, format
        let radices = vec![SIZES.len() as u64, SIZES.len() as u64, mips.len() as u64, fmts.len() as u64];
        BlpDims { fmts, mips, radices }
    }
    pub fn axes(&self) -> Value {
        json!({"widths": SIZES.len(), "heights": SIZES.len(), "formats": self.fmts.iter().map(|f| f.name()).collect::<Vec<_>>(), "mipmaps": self.mips, "modes_inner": ["--strict", "(lenient)"], "cases": self.len()})
    }
}

/// what the library sees in the file the tool is about to validate
struct BlpLibView {
    w: u32,
    h: u32,
    jpeg_header_empty: bool,
    dxt: bool,
}

impl Space for BlpDims {
    fn len(&self) -> u64 {
        gen::product(&self.radices)
    }
    fn describe(&self, i: u64) -> Value {
        let d = gen::mixed_radix(i, &self.radices);
        json!({
            "space": "blpdims",
            "command": "blp validate FILE [--strict]",
            "width": SIZES[d[0] as usize],
            "height": SIZES[d[1] as usize],
            "mipmaps": self.mips[d[2] as usize],
            "format": self.fmts[d[3] as usize].name(),
        })
    }
    fn run(&self, i: u64) -> CaseResult {
        let d = gen::mixed_radix(i, &self.radices);
        let (w, h, mips, fmt) = (SIZES[d[0] as usize], SIZES[d[1] as usize], self.mips[d[2] as usize], self.fmts[d[3] as usize]);
        let mut r = CaseResult::new();
        r.key = format!("bd{i}");
        let scratch = Scratch::new(&scratch_tag());
        let rn = Runner::new(&scratch.0, 30);
        let path = rn.cwd.join("tex.blp");
        // ---- the texture: written by the library's own encoder
        let written = guarded(|| -> Result<(), String> {
            let img = image::DynamicImage::ImageRgba8(image::RgbaImage::from_fn(w, h, |x, y| image::Rgba([(x * 3) as u8, (y * 5) as u8, (x ^ y) as u8, if fmt == Fmt::Blp2Dxt5 { (x * 7 + y) as u8 } else { 255 }])));
            let blp = wow_blp::convert::image_to_blp(img, mips, fmt.target(), wow_blp::convert::FilterType::Nearest).map_err(|e| e.to_string())?;
            wow_blp::encode::save_blp(&blp, &path).map_err(|e| e.to_string())
        });
        match written {
            Ok(Ok(())) => {}
            Ok(Err(e)) | Err((_, _, e)) => {
                // the encoder's refusal is not the tool's business
                r.outcome = "texture-not-written".into();
                r.count("texture_not_written_by_library", 1);
                why(&e.to_string());
                return r;
            }
        }
        let view = guarded(|| -> Result<BlpLibView, String> {
            use wow_blp::types::BlpContent;
            let b = wow_blp::parser::load_blp(&path).map_err(|e| e.to_string())?;
            Ok(BlpLibView {
                w: b.header.width,
                h: b.header.height,
                jpeg_header_empty: matches!(&b.content, BlpContent::Jpeg(j) if j.header.is_empty()),
                dxt: matches!(&b.content, BlpContent::Dxt1(_) | BlpContent::Dxt3(_) | BlpContent::Dxt5(_)),
            })
        });
        let view = match view {
            Ok(Ok(v)) => v,
            Ok(Err(e)) | Err((_, _, e)) => {
                r.outcome = "texture-not-loaded".into();
                r.count("texture_not_loaded_by_library", 1);
                why(&e.to_string());
                return r;
            }
        };
        let pow2 = view.w.is_power_of_two() && view.h.is_power_of_two();
        // the errors `blp validate` documents besides the power-of-two rule (its own printed rules)
        let zero = view.w == 0 || view.h == 0;
        let dxt_not_mult4 = view.dxt && (view.w % 4 != 0 || view.h % 4 != 0);
        let other_error = zero || view.jpeg_header_empty || dxt_not_mult4;
        let what = format!("{}x{} {}{} (library header: {}x{})", w, h, fmt.name(), if mips { " with mipmaps" } else { "" }, view.w, view.h);
        let mut oc = String::new();
        for strict in [true, false] {
            let mut args: Vec<String> = vec!["blp".into(), "validate".into(), "tex.blp".into()];
            if strict {
                args.push("--strict".into());
            }
            let o = rn.run(&args);
            r.count("processes", 1);
            r.nontrivial |= !o.timed_out;
            oc.push_str(&format!("/{}:{}", if strict { "strict" } else { "lenient" }, o.class()));
            let mode = if strict { "blp validate --strict" } else { "blp validate" };
            if o.timed_out {
                r.count("timeouts", 1);
                continue;
            }
            if o.ok() && o.stdout.lines().any(|l| l.trim_start().starts_with('\u{2717}')) {
                r.viol(format!("{mode}: exit 0 while its own output reports a failure"), format!("{what}: {}", o.brief()));
            }
            if strict && !pow2 {
                r.count("strict_non_power_of_two_judged", 1);
                if o.ok() {
                    r.viol("blp validate --strict: exit 0 on a texture whose width or height is not a power of two", format!("{what}: {}", o.brief()));
                }
                continue;
            }
            if dxt_not_mult4 {
                r.count("dxt_not_multiple_of_4_judged", 1);
                if o.ok() {
                    r.viol(format!("{mode}: exit 0 on a DXT texture whose sides are not multiples of 4"), format!("{what}: {}", o.brief()));
                }
                continue;
            }
            if pow2 && !other_error {
                r.count(if strict { "strict_power_of_two_judged" } else { "lenient_power_of_two_judged" }, 1);
                if !o.ok() {
                    r.viol(format!("{mode}: non-zero exit on a texture with power-of-two sides that none of its documented rules rejects"), format!("{what}: {}", o.brief()));
                }
                continue;
            }
            // lenient run on a non-power-of-two texture: the tool documents a warning, the exit
            // status is observed but not judged
            r.count(if o.ok() { "lenient_non_power_of_two_accepted" } else { "lenient_non_power_of_two_refused" }, 1);
        }
        r.outcome = format!("blpdims/{}{}", if pow2 { "pow2" } else { "non-pow2" }, oc);
        r
    }
}
