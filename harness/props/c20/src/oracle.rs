//! In-process calls into the /repo libraries: "the library's view" of a file.
//! Only called on bytes the command-line tool itself processed and exited 0 on, so that a
//! malformed input cannot take the worker down in a way the tool did not already survive.
use std::fs::File;
use std::io::BufReader;
use std::path::Path;
use vcore::guarded;

/// what a file is supposed to be (input kind of a template, or kind of an output file)
#[derive(Clone, Copy, Debug, PartialEq, Eq)]
pub enum Kind {
    Mpq,
    Dbc,
    Schema,
    Blp,
    Png,
    M2,
    Skin,
    Anim,
    Wmo,
    WmoRoot,
    Adt,
    Wdt,
    Wdl,
    /// arbitrary bytes (file to be added to an archive, DBD text)
    Raw,
    // ---- output-only kinds
    Image,
    Json,
    Text,
    AnyFile,
}

fn g<T>(f: impl FnOnce() -> Result<T, String>) -> Result<T, String> {
    match guarded(f) {
        Ok(r) => r,
        Err((file, line, msg)) => Err(format!("library panicked at {file}:{line}: {msg}")),
    }
}

/// The library's own parse of `path` as `kind` (the same entry point the tool's sub-commands use).
/// `ver` is the version argument the sub-command was given (WDT / WDL), if any.
pub fn parse_ok(kind: Kind, path: &Path, ver: Option<&str>, schema: Option<&Path>) -> Result<(), String> {
    let open = || File::open(path).map(BufReader::new).map_err(|e| format!("open: {e}"));
    match kind {
        Kind::Mpq => g(|| wow_mpq::Archive::open(path).map(|_| ()).map_err(|e| e.to_string())),
        Kind::Dbc => g(|| {
            let mut r = open()?;
            let p = wow_cdbc::DbcParser::parse(&mut r).map_err(|e| e.to_string())?;
            // the YAML loader is behind a feature whose dependency is not available to the harness:
            // the schema is rebuilt from the same definition the seed's schema.yaml was written from
            let p = match schema {
                Some(_) => p.with_schema(crate::seeds::dbc_schema()).map_err(|e| e.to_string())?,
                None => p,
            };
            p.parse_records().map(|_| ()).map_err(|e| e.to_string())
        }),
        Kind::Blp => g(|| wow_blp::parser::load_blp(path).map(|_| ()).map_err(|e| e.to_string())),
        Kind::Png | Kind::Image => g(|| image::ImageReader::open(path).map_err(|e| e.to_string())?.with_guessed_format().map_err(|e| e.to_string())?.decode().map(|_| ()).map_err(|e| e.to_string())),
        Kind::M2 => g(|| wow_m2::M2Model::load(path).map(|_| ()).map_err(|e| e.to_string())),
        Kind::Skin => g(|| wow_m2::SkinFile::load(path).map(|_| ()).map_err(|e| e.to_string())),
        Kind::Anim => g(|| wow_m2::AnimFile::load(path).map(|_| ()).map_err(|e| e.to_string())),
        Kind::Wmo => g(|| {
            let mut r = open()?;
            wow_wmo::parse_wmo_with_metadata(&mut r).map(|_| ()).map_err(|e| e.to_string())
        }),
        Kind::WmoRoot => g(|| {
            let mut r = open()?;
            wow_wmo::WmoParser::new().parse_root(&mut r).map(|_| ()).map_err(|e| e.to_string())
        }),
        Kind::Adt => g(|| {
            let mut r = open()?;
            wow_adt::parse_adt_with_metadata(&mut r).map(|_| ()).map_err(|e| e.to_string())
        }),
        Kind::Wdt => g(|| {
            let v = wow_wdt::version::WowVersion::from_expansion_name(ver.unwrap_or("WotLK")).map_err(|e| e.to_string())?;
            wow_wdt::WdtReader::new(open()?, v).read().map(|_| ()).map_err(|e| e.to_string())
        }),
        Kind::Wdl => g(|| {
            let mut r = open()?;
            let p = match ver {
                Some(v) => wow_wdl::parser::WdlParser::with_version(wdl_version(v)?),
                None => wow_wdl::parser::WdlParser::new(),
            };
            p.parse(&mut r).map(|_| ()).map_err(|e| e.to_string())
        }),
        Kind::Json => g(|| {
            let t = std::fs::read_to_string(path).map_err(|e| e.to_string())?;
            serde_json::from_str::<serde_json::Value>(&t).map(|_| ()).map_err(|e| e.to_string())
        }),
        Kind::Raw | Kind::Schema | Kind::Text | Kind::AnyFile => std::fs::metadata(path).map(|_| ()).map_err(|e| e.to_string()),
    }
}

/// the version names the tool documents for `wdl --version/--to` (subset used by the templates)
pub fn wdl_version(s: &str) -> Result<wow_wdl::version::WdlVersion, String> {
    use wow_wdl::version::WdlVersion::*;
    Ok(match s.to_lowercase().as_str() {
        "vanilla" | "classic" | "tbc" => Vanilla,
        "wotlk" => Wotlk,
        "cata" | "cataclysm" => Cataclysm,
        "mop" => Mop,
        "wod" => Wod,
        "legion" => Legion,
        "bfa" => Bfa,
        "latest" => Latest,
        _ => return Err(format!("unknown wdl version name {s}")),
    })
}

/// Library-level validation wrapped by a `validate` sub-command: Ok(n) = number of errors it reports.
pub fn validation_errors(kind: Kind, path: &Path, ver: Option<&str>) -> Result<(u64, String), String> {
    match kind {
        Kind::Mpq => g(|| {
            use wow_mpq::single_archive_parallel::{extract_with_config, ParallelArchive, ParallelConfig};
            let pa = ParallelArchive::open(path).map_err(|e| e.to_string())?;
            let names: Vec<String> = pa.list_files().to_vec();
            let refs: Vec<&str> = names.iter().map(|s| s.as_str()).collect();
            let res = extract_with_config(path, &refs, ParallelConfig::new().skip_errors(true).threads(1)).map_err(|e| e.to_string())?;
            let mut n = 0;
            let mut first = String::new();
            for (name, r) in res {
                if let Err(e) = r {
                    n += 1;
                    if first.is_empty() {
                        first = format!("{name}: {e}");
                    }
                }
            }
            Ok((n, first))
        }),
        Kind::M2 => g(|| {
            let f = wow_m2::M2Model::load(path).map_err(|e| e.to_string())?;
            Ok(match f.model().validate() {
                Ok(()) => (0, String::new()),
                Err(e) => (1, e.to_string()),
            })
        }),
        Kind::Wdl => g(|| {
            let mut r = File::open(path).map(BufReader::new).map_err(|e| e.to_string())?;
            let p = match ver {
                Some(v) => wow_wdl::parser::WdlParser::with_version(wdl_version(v)?),
                None => wow_wdl::parser::WdlParser::new(),
            };
            let f = p.parse(&mut r).map_err(|e| e.to_string())?;
            Ok(match wow_wdl::validation::validate_wdl_file(&f) {
                Ok(()) => (0, String::new()),
                Err(e) => (1, e.to_string()),
            })
        }),
        _ => Ok((0, String::new())),
    }
}

pub struct MpqView {
    pub version: String,
    pub file_count: usize,
    pub sector_size: usize,
    /// names of `Archive::list()`
    pub names: Vec<String>,
    /// per name: `read_file` result
    pub data: Vec<Result<Vec<u8>, String>>,
}

pub fn mpq_view(path: &Path, read: bool) -> Result<MpqView, String> {
    g(|| {
        let mut a = wow_mpq::Archive::open(path).map_err(|e| format!("open: {e}"))?;
        let info = a.get_info().map_err(|e| format!("get_info: {e}"))?;
        let names: Vec<String> = a.list().map_err(|e| format!("list: {e}"))?.into_iter().map(|e| e.name).collect();
        let mut data = vec![];
        if read {
            for n in &names {
                data.push(a.read_file(n).map_err(|e| e.to_string()));
            }
        }
        Ok(MpqView { version: format!("{:?}", info.format_version), file_count: info.file_count, sector_size: info.sector_size, names, data })
    })
}

/// names (of `names`) that `Archive::find_file` does not find
pub fn mpq_has(path: &Path, names: &[String]) -> Result<Vec<String>, String> {
    g(|| {
        let a = wow_mpq::Archive::open(path).map_err(|e| format!("open: {e}"))?;
        let mut absent = vec![];
        for n in names {
            if !matches!(a.find_file(n), Ok(Some(_))) {
                absent.push(n.clone());
            }
        }
        Ok(absent)
    })
}

pub fn mpq_read(path: &Path, name: &str) -> Result<Vec<u8>, String> {
    g(|| {
        let mut a = wow_mpq::Archive::open(path).map_err(|e| format!("open: {e}"))?;
        a.read_file(name).map_err(|e| e.to_string())
    })
}

/// (file position, stored size) of a member, for the payload-damage class
pub fn mpq_member_span(path: &Path, name: &str) -> Option<(u64, u64)> {
    g(|| {
        let a = wow_mpq::Archive::open(path).map_err(|e| e.to_string())?;
        let fi = a.find_file(name).map_err(|e| e.to_string())?.ok_or("absent")?;
        Ok((fi.file_pos, fi.compressed_size))
    })
    .ok()
}
