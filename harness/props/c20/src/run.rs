//! Running the real command-line tool: isolated environment, cwd inside the scratch dir, timeout,
//! address-space limit, output captured through files (no pipe dead-locks).
use std::os::unix::process::ExitStatusExt;
use std::path::{Path, PathBuf};
use std::process::{Command, Stdio};
use std::time::{Duration, Instant};

/// scratch tag unique per process *and* thread (the survey mode runs cases on several threads)
pub fn scratch_tag() -> String {
    let t: String = format!("{:?}", std::thread::current().id()).chars().filter(|c| c.is_ascii_digit()).collect();
    format!("c20-t{t}")
}

/// Resource limits are put on the worker process itself and inherited by every tool process it
/// starts (no `pre_exec`, so `Command` can use the cheap posix_spawn path): a malformed size field
/// must not be able to take the machine down.
pub fn limit_this_process() {
    static ONCE: std::sync::Once = std::sync::Once::new();
    ONCE.call_once(|| unsafe {
        let lim = libc::rlimit { rlim_cur: 8 << 30, rlim_max: 8 << 30 };
        libc::setrlimit(libc::RLIMIT_AS, &lim);
        let core = libc::rlimit { rlim_cur: 0, rlim_max: 0 };
        libc::setrlimit(libc::RLIMIT_CORE, &core);
        let fsz = libc::rlimit { rlim_cur: 1 << 30, rlim_max: 1 << 30 };
        libc::setrlimit(libc::RLIMIT_FSIZE, &fsz);
    });
}

pub fn cli_path() -> PathBuf {
    match std::env::var("VERIF_CLI") {
        Ok(p) if !p.is_empty() => PathBuf::from(p),
        _ => PathBuf::from("/verif/.target/repo-cli/debug/warcraft-rs"),
    }
}

#[derive(Debug, Clone)]
pub struct Out {
    pub code: Option<i32>,
    pub signal: Option<i32>,
    pub timed_out: bool,
    pub stdout: String,
    pub stderr: String,
}
impl Out {
    pub fn ok(&self) -> bool {
        self.code == Some(0) && !self.timed_out
    }
    /// coarse observation class
    pub fn class(&self) -> &'static str {
        if self.timed_out {
            "timeout"
        } else if self.signal.is_some() {
            "signal"
        } else {
            match self.code {
                Some(0) => "exit0",
                Some(101) => "exit101",
                Some(2) => "exit2",
                Some(_) => "exitN",
                None => "noexit",
            }
        }
    }
    pub fn brief(&self) -> String {
        let tail = |s: &str| -> String {
            let t: String = s.chars().rev().take(300).collect::<Vec<_>>().into_iter().rev().collect();
            t.replace('\n', " | ")
        };
        format!("exit={:?} signal={:?} timeout={} stdout[..]={:?} stderr[..]={:?}", self.code, self.signal, self.timed_out, tail(&self.stdout), tail(&self.stderr))
    }
}

pub struct Runner {
    pub cli: PathBuf,
    pub cwd: PathBuf,
    pub home: PathBuf,
    pub timeout_s: u64,
    seq: std::cell::Cell<u64>,
}

impl Runner {
    /// `root` is a directory inside a `vcore::Scratch`; cwd and HOME/XDG_* live under it.
    pub fn new(root: &Path, timeout_s: u64) -> Runner {
        limit_this_process();
        let cwd = root.join("w");
        let home = root.join("home");
        for d in [&cwd, &home, &home.join("data"), &home.join("config"), &home.join("cache"), &home.join("state"), &root.join("tmp"), &root.join("io")] {
            std::fs::create_dir_all(d).expect("mkdir scratch");
        }
        Runner { cli: cli_path(), cwd, home, timeout_s, seq: std::cell::Cell::new(0) }
    }

    pub fn run(&self, args: &[String]) -> Out {
        let root = self.cwd.parent().unwrap().to_path_buf();
        let k = self.seq.get();
        self.seq.set(k + 1);
        let so = root.join("io").join(format!("{k}.out"));
        let se = root.join("io").join(format!("{k}.err"));
        let fo = std::fs::File::create(&so).expect("stdout file");
        let fe = std::fs::File::create(&se).expect("stderr file");
        let mut c = Command::new(&self.cli);
        c.args(args)
            .current_dir(&self.cwd)
            .env_clear()
            .env("PATH", "/usr/bin:/bin")
            .env("HOME", &self.home)
            .env("XDG_DATA_HOME", self.home.join("data"))
            .env("XDG_CONFIG_HOME", self.home.join("config"))
            .env("XDG_CACHE_HOME", self.home.join("cache"))
            .env("XDG_STATE_HOME", self.home.join("state"))
            .env("TMPDIR", root.join("tmp"))
            .env("RUST_BACKTRACE", "0")
            .env("RUST_LIB_BACKTRACE", "0")
            .env("NO_COLOR", "1")
            .env("TERM", "dumb")
            .env("LANG", "C.UTF-8")
            .env("MALLOC_ARENA_MAX", "2")
            // fewer runtime threads per process: 16 workers x 16 idle tokio threads only cost spawn time
            .env("TOKIO_WORKER_THREADS", "2")
            .stdin(Stdio::null())
            .stdout(Stdio::from(fo))
            .stderr(Stdio::from(fe));
        let t0 = Instant::now();
        let mut child = match c.spawn() {
            Ok(c) => c,
            Err(e) => panic!("cannot start the command-line tool {}: {e}", self.cli.display()),
        };
        let mut timed_out = false;
        let status = loop {
            match child.try_wait() {
                Ok(Some(s)) => break s,
                Ok(None) => {
                    if t0.elapsed() > Duration::from_secs(self.timeout_s) {
                        timed_out = true;
                        let _ = child.kill();
                        break child.wait().expect("wait");
                    }
                    std::thread::sleep(Duration::from_micros(if t0.elapsed() < Duration::from_millis(50) { 500 } else { 5000 }));
                }
                Err(e) => panic!("wait: {e}"),
            }
        };
        let rd = |p: &Path| -> String {
            let b = std::fs::read(p).unwrap_or_default();
            let b = if b.len() > (1 << 20) { b[..1 << 20].to_vec() } else { b };
            String::from_utf8_lossy(&b).into_owned()
        };
        let out = Out { code: status.code(), signal: status.signal(), timed_out, stdout: rd(&so), stderr: rd(&se) };
        let _ = std::fs::remove_file(&so);
        let _ = std::fs::remove_file(&se);
        out
    }
}
