//! Valid seed files for every format family, produced by each crate's own writer / builder.
//! A seed is a pure function of its name (no randomness, no clock).
use std::io::Cursor;

#[derive(Clone, Debug)]
pub struct Seed {
    /// stable name, used in case descriptors
    pub name: &'static str,
    /// file name extension the tool expects
    pub ext: &'static str,
    pub bytes: Vec<u8>,
    /// additional files that must sit next to the seed (name, bytes)
    pub side: Vec<(String, Vec<u8>)>,
    /// (archives) file position and stored length of one compressible member
    pub payload_span: Option<(u64, u64)>,
}

fn seed(name: &'static str, ext: &'static str, bytes: Vec<u8>) -> Seed {
    Seed { name, ext, bytes, side: vec![], payload_span: None }
}

fn fl(k: usize) -> f32 {
    [0.0f32, 1.0, -1.5, 2.25, 100.0, -0.125, 7.5, 33.0, 0.5][k % 9]
}

// ------------------------------------------------------------------ WDT

pub fn wdt() -> Vec<Seed> {
    use wow_wdt::chunks::maid::MaidSection;
    use wow_wdt::chunks::{MaidChunk, ModfChunk, ModfEntry, MphdFlags, MwmoChunk};
    use wow_wdt::version::WowVersion;
    use wow_wdt::{WdtFile, WdtWriter};
    let write = |w: &WdtFile| -> Vec<u8> {
        let mut c = Cursor::new(Vec::new());
        WdtWriter::new(&mut c).write(w).expect("wdt write");
        c.into_inner()
    };
    let mut out = vec![];
    // terrain map, pre-Cataclysm (empty MWMO present), a few tiles
    {
        let mut w = WdtFile::new(WowVersion::WotLK);
        w.mphd.flags = MphdFlags::ADT_HAS_MCCV | MphdFlags::ADT_HAS_BIG_ALPHA;
        for (x, y) in [(0usize, 0usize), (31, 32), (63, 63), (5, 9)] {
            let e = w.main.get_mut(x, y).unwrap();
            e.set_has_adt(true);
            e.area_id = (y * 64 + x) as u32 + 1;
        }
        w.mwmo = Some(MwmoChunk::new());
        out.push(seed("wdt_terrain_wotlk", "wdt", write(&w)));
    }
    // terrain map, Cataclysm+ (no MWMO)
    {
        let mut w = WdtFile::new(WowVersion::Cataclysm);
        w.mphd.flags = MphdFlags::ADT_HAS_MCCV;
        for x in 0..64usize {
            let e = w.main.get_mut(x, 17).unwrap();
            e.set_has_adt(true);
            e.area_id = x as u32;
        }
        out.push(seed("wdt_terrain_cata", "wdt", write(&w)));
    }
    // WMO-only map
    {
        let mut w = WdtFile::new(WowVersion::Classic);
        w.mphd.flags = MphdFlags::WDT_USES_GLOBAL_MAP_OBJ;
        let mut m = MwmoChunk::new();
        m.add_filename("World\\wmo\\Dungeon\\Test\\Test.wmo".to_string());
        w.mwmo = Some(m);
        let mut f = ModfChunk::new();
        let mut e = ModfEntry::new();
        e.unique_id = 77;
        e.position = [1.0, 2.0, 3.0];
        e.lower_bounds = [-1.0, -2.0, -3.0];
        e.upper_bounds = [4.0, 5.0, 6.0];
        f.add_entry(e);
        w.modf = Some(f);
        out.push(seed("wdt_wmo_only_classic", "wdt", write(&w)));
    }
    // BfA with MAID
    {
        let mut w = WdtFile::new(WowVersion::BfA);
        w.mphd.flags = MphdFlags::WDT_HAS_MAID | MphdFlags::ADT_HAS_MCCV;
        let mut maid = MaidChunk::new();
        let _ = maid.set(MaidSection::RootAdt, 3, 4, 1000);
        let _ = maid.set(MaidSection::Obj0Adt, 3, 4, 1001);
        let e = w.main.get_mut(3, 4).unwrap();
        e.set_has_adt(true);
        w.maid = Some(maid);
        out.push(seed("wdt_bfa_maid", "wdt", write(&w)));
    }
    out
}

// ------------------------------------------------------------------ WDL

pub fn wdl() -> Vec<Seed> {
    use wow_wdl::parser::WdlParser;
    use wow_wdl::types::{BoundingBox, HeightMapTile, HolesData, M2Placement, M2VisibilityInfo, ModelPlacement, Vec3d, WdlFile};
    use wow_wdl::version::WdlVersion;
    let write = |f: &WdlFile| -> Vec<u8> {
        let mut c = Cursor::new(Vec::new());
        WdlParser::with_version(f.version).write(&mut c, f).expect("wdl write");
        c.into_inner()
    };
    let tile = |k: usize| {
        let mut t = HeightMapTile::new();
        for (i, v) in t.outer_values.iter_mut().enumerate() {
            *v = ((i * 7 + k * 13) % 2000) as i16 - 1000;
        }
        for (i, v) in t.inner_values.iter_mut().enumerate() {
            *v = -(((i * 3 + k) % 500) as i16);
        }
        t
    };
    let bb = |k: usize| BoundingBox::new(Vec3d::new(fl(k), fl(k + 1), fl(k + 2)), Vec3d::new(fl(k + 3) + 200.0, fl(k + 4) + 200.0, fl(k + 5) + 200.0));
    let mut out = vec![];
    for (name, v) in [("wdl_vanilla", WdlVersion::Vanilla), ("wdl_wotlk", WdlVersion::Wotlk), ("wdl_cata", WdlVersion::Cataclysm), ("wdl_legion", WdlVersion::Legion)] {
        let mut f = WdlFile::with_version(v);
        for (k, (x, y)) in [(0u32, 0u32), (10, 20), (63, 63)].into_iter().enumerate() {
            f.heightmap_tiles.insert((x, y), tile(k));
            // the writer recomputes the offsets; a non-zero marker keeps validate() consistent
            f.map_tile_offsets[(y * 64 + x) as usize] = 1;
            if v.has_maho_chunk() {
                let mut h = HolesData::new();
                h.set_hole(k, k + 1, true);
                f.holes_data.insert((x, y), h);
            }
        }
        if v.has_wmo_chunks() {
            f.wmo_filenames = vec!["world\\wmo\\a.wmo".into(), "world\\wmo\\bb.wmo".into()];
            f.wmo_indices = vec![0, 16];
            f.wmo_placements = vec![ModelPlacement { id: 1, wmo_id: 1, position: Vec3d::new(1.0, 2.0, 3.0), rotation: Vec3d::new(0.0, 0.5, 0.0), bounds: bb(1), flags: 1, doodad_set: 0, name_set: 0, padding: 0 }];
        }
        if v.has_ml_chunks() {
            f.m2_placements = vec![M2Placement { id: 5, m2_id: 123456, position: Vec3d::new(1.0, 2.0, 3.0), rotation: Vec3d::new(0.0, 0.0, 1.0), scale: 1.0, flags: 0 }];
            f.m2_visibility = vec![M2VisibilityInfo { bounds: bb(2), radius: 55.0 }];
            f.wmo_legion_placements = vec![M2Placement { id: 6, m2_id: 654321, position: Vec3d::new(4.0, 5.0, 6.0), rotation: Vec3d::new(0.0, 0.0, 0.0), scale: 2.0, flags: 1 }];
            f.wmo_legion_visibility = vec![M2VisibilityInfo { bounds: bb(3), radius: 99.0 }];
        }
        out.push(seed(name, "wdl", write(&f)));
    }
    // parses, but validate_wdl_file reports an error: placement refers to a WMO id that has no MWID entry
    {
        let mut f = WdlFile::with_version(WdlVersion::Wotlk);
        f.heightmap_tiles.insert((1, 1), tile(0));
        f.map_tile_offsets[65] = 1;
        f.wmo_filenames = vec!["a.wmo".into()];
        f.wmo_indices = vec![0];
        f.wmo_placements = vec![ModelPlacement { id: 1, wmo_id: 9, position: Vec3d::new(1.0, 2.0, 3.0), rotation: Vec3d::new(0.0, 0.0, 0.0), bounds: bb(1), flags: 0, doodad_set: 0, name_set: 0, padding: 0 }];
        out.push(seed("wdl_wotlk_dangling_wmo_ref", "wdl", write(&f)));
    }
    out
}

// ------------------------------------------------------------------ ADT

pub fn adt() -> Vec<Seed> {
    use wow_adt::{AdtBuilder, AdtVersion};
    let mut out = vec![];
    for (name, v) in [
        ("adt_vanilla", AdtVersion::VanillaLate),
        ("adt_tbc", AdtVersion::TBC),
        ("adt_wotlk", AdtVersion::WotLK),
        ("adt_cata", AdtVersion::Cataclysm),
        ("adt_mop", AdtVersion::MoP),
    ] {
        let b = AdtBuilder::new()
            .with_version(v)
            .add_texture("tileset/grass.blp")
            .add_texture("tileset/rock_s.blp")
            .add_model("world/doodad/tree.m2")
            .add_wmo("world/wmo/hut.wmo");
        let built = b.build().expect("adt build");
        out.push(seed(name, "adt", built.to_bytes().expect("adt bytes")));
    }
    out
}

// ------------------------------------------------------------------ WMO

pub fn wmo() -> Vec<Seed> {
    use std::collections::HashMap;
    use wow_wmo::wmo_group_types::{WmoGroup, WmoGroupHeader};
    use wow_wmo::*;
    let v3 = |x: f32, y: f32, z: f32| Vec3 { x, y, z };
    let col = |r: u8, g: u8, b: u8, a: u8| Color { r, g, b, a };
    let bbox = |a: (f32, f32, f32), b: (f32, f32, f32)| BoundingBox { min: v3(a.0, a.1, a.2), max: v3(b.0, b.1, b.2) };
    let root = |rich: bool, version: WmoVersion| -> WmoRoot {
        let textures: Vec<String> = if rich { vec!["dungeons\\textures\\wall.blp".into(), "t.blp".into()] } else { vec!["a.blp".into()] };
        let toff = |k: usize| -> u32 { textures[..k].iter().map(|s| s.len() as u32 + 1).sum() };
        let nmat = if rich { 2 } else { 1 };
        let materials: Vec<WmoMaterial> = (0..nmat)
            .map(|i| WmoMaterial {
                flags: if i == 0 { WmoMaterialFlags::UNLIT } else { WmoMaterialFlags::TWO_SIDED },
                shader: i as u32,
                blend_mode: 1 - i as u32,
                texture1: toff(i % textures.len()),
                emissive_color: col(1, 2, 3, 4),
                sidn_color: col(5, 6, 7, 8),
                framebuffer_blend: Color::default(),
                texture2: 0,
                diffuse_color: col(10, 20, 30, 40),
                ground_type: i as u32,
            })
            .collect();
        let gnames: &[&str] = if rich { &["hall", "attic"] } else { &["room"] };
        let groups: Vec<WmoGroupInfo> = gnames
            .iter()
            .enumerate()
            .map(|(i, n)| WmoGroupInfo {
                flags: if i == 0 { WmoGroupFlags::INDOOR | WmoGroupFlags::HAS_NORMALS } else { WmoGroupFlags::empty() },
                bounding_box: bbox((-1.0 - i as f32, -2.0, -3.0), (4.0, 5.0 + i as f32, 6.0)),
                name: n.to_string(),
            })
            .collect();
        let portals = if rich {
            vec![WmoPortal { vertices: vec![v3(0.0, 0.0, 0.0), v3(1.0, 0.0, 0.0), v3(1.0, 0.0, 2.0), v3(0.0, 0.0, 2.0)], normal: v3(0.0, 1.0, 0.0) }]
        } else {
            vec![]
        };
        let portal_references = if rich { vec![WmoPortalReference { portal_index: 0, group_index: 1, side: 1 }] } else { vec![] };
        let lights = if rich {
            vec![WmoLight {
                light_type: WmoLightType::Omni,
                position: v3(1.5, -2.25, 3.0),
                color: col(255, 128, 64, 32),
                intensity: 1.0,
                rotation: [0.0, 0.0, 0.0, 1.0],
                attenuation_start: 0.0,
                attenuation_end: 10.0,
                use_attenuation: true,
                properties: WmoLightProperties::Omni,
            }]
        } else {
            vec![]
        };
        let doodad_defs = if rich {
            vec![WmoDoodadDef { name_offset: 0, position: v3(10.0, -0.5, 2.0), orientation: [0.0, 0.0, 0.0, 1.0], scale: 1.0, color: col(255, 255, 255, 255), set_index: 0 }]
        } else {
            vec![]
        };
        let doodad_sets = vec![WmoDoodadSet { name: "Set_$DefaultGlobal".into(), start_doodad: 0, n_doodads: doodad_defs.len() as u32 }];
        let header = WmoHeader {
            n_materials: materials.len() as u32,
            n_groups: groups.len() as u32,
            n_portals: portals.len() as u32,
            n_lights: lights.len() as u32,
            n_doodad_names: doodad_defs.len() as u32,
            n_doodad_defs: doodad_defs.len() as u32,
            n_doodad_sets: doodad_sets.len() as u32,
            flags: if rich { WmoFlags::OUTDOOR } else { WmoFlags::empty() },
            ambient_color: col(11, 22, 33, 44),
        };
        let mut texture_offset_index_map = HashMap::new();
        for k in 0..textures.len() {
            texture_offset_index_map.insert(toff(k), k as u32);
        }
        WmoRoot {
            version,
            materials,
            groups,
            portals,
            portal_references,
            visible_block_lists: vec![],
            lights,
            doodad_defs,
            doodad_sets,
            bounding_box: bbox((-2.0, -2.0, -3.0), (4.0, 6.0, 6.0)),
            textures,
            texture_offset_index_map,
            header,
            skybox: if rich { Some("environments\\stars\\sky.mdx".into()) } else { None },
            convex_volume_planes: None,
        }
    };
    let wroot = |r: &WmoRoot, v: WmoVersion| -> Vec<u8> {
        let mut c = Cursor::new(Vec::new());
        WmoWriter::new().write_root(&mut c, r, v).expect("wmo root write");
        c.into_inner()
    };
    let mut out = vec![];
    out.push(seed("wmo_root_classic_min", "wmo", wroot(&root(false, WmoVersion::Classic), WmoVersion::Classic)));
    out.push(seed("wmo_root_wotlk_rich", "wmo", wroot(&root(true, WmoVersion::Wotlk), WmoVersion::Wotlk)));
    out.push(seed("wmo_root_mop_rich", "wmo", wroot(&root(true, WmoVersion::Mop), WmoVersion::Mop)));
    // group file
    {
        let g = WmoGroup {
            header: WmoGroupHeader { flags: WmoGroupFlags::HAS_NORMALS | WmoGroupFlags::INDOOR, bounding_box: bbox((-1.5, -2.5, -3.5), (4.25, 5.125, 6.0)), name_offset: 0, group_index: 0 },
            materials: vec![],
            vertices: (0..4).map(|i| v3(i as f32 * 1.5, -(i as f32), (i * i) as f32)).collect(),
            normals: (0..4).map(|_| v3(0.0, 0.0, 1.0)).collect(),
            tex_coords: (0..4).map(|i| TexCoord { u: 0.25 * i as f32, v: 1.0 - 0.125 * i as f32 }).collect(),
            batches: vec![WmoBatch { flags: [0u8; 10], material_id: 0, start_index: 0, count: 6, start_vertex: 0, end_vertex: 3, use_large_material_id: false }],
            indices: vec![0, 1, 2, 2, 1, 3],
            vertex_colors: None,
            bsp_nodes: None,
            liquid: None,
            doodad_refs: None,
        };
        let mut c = Cursor::new(Vec::new());
        WmoWriter::new().write_group(&mut c, &g, WmoVersion::Wotlk).expect("wmo group write");
        out.push(seed("wmo_group_wotlk", "wmo", c.into_inner()));
    }
    out
}

// ------------------------------------------------------------------ BLP

pub fn blp_image(w: u32, h: u32, alpha: bool) -> image::DynamicImage {
    let mut img = image::RgbaImage::new(w, h);
    for y in 0..h {
        for x in 0..w {
            let a = if alpha { ((x * 37 + y * 11) % 256) as u8 } else { 255 };
            img.put_pixel(x, y, image::Rgba([(x * 255 / w.max(1)) as u8, (y * 255 / h.max(1)) as u8, ((x ^ y) * 16) as u8, a]));
        }
    }
    image::DynamicImage::ImageRgba8(img)
}

pub fn blp() -> Vec<Seed> {
    use wow_blp::convert::{image_to_blp, AlphaBits, Blp2Format, BlpOldFormat, BlpTarget, DxtAlgorithm, FilterType};
    use wow_blp::encode::encode_blp;
    let mk = |w: u32, h: u32, alpha: bool, mips: bool, t: BlpTarget| -> Vec<u8> {
        let b = image_to_blp(blp_image(w, h, alpha), mips, t, FilterType::Nearest).expect("image_to_blp");
        encode_blp(&b).expect("encode_blp")
    };
    vec![
        seed("blp1_raw1_16x16_mips", "blp", mk(16, 16, true, true, BlpTarget::Blp1(BlpOldFormat::Raw1 { alpha_bits: AlphaBits::Bit8 }))),
        seed("blp1_jpeg_8x8", "blp", mk(8, 8, false, false, BlpTarget::Blp1(BlpOldFormat::Jpeg { has_alpha: false }))),
        seed("blp2_dxt1_16x8_mips", "blp", mk(16, 8, false, true, BlpTarget::Blp2(Blp2Format::Dxt1 { has_alpha: false, compress_algorithm: DxtAlgorithm::RangeFit }))),
        seed("blp2_dxt5_8x8", "blp", mk(8, 8, true, false, BlpTarget::Blp2(Blp2Format::Dxt5 { has_alpha: true, compress_algorithm: DxtAlgorithm::RangeFit }))),
        seed("blp2_raw3_4x4", "blp", mk(4, 4, true, false, BlpTarget::Blp2(Blp2Format::Raw3))),
        // parses, but `blp validate` must report an error: DXT with sides that are not multiples of 4
        seed("blp2_dxt3_2x2_not_multiple_of_4", "blp", mk(2, 2, true, false, BlpTarget::Blp2(Blp2Format::Dxt3 { has_alpha: true, compress_algorithm: DxtAlgorithm::RangeFit }))),
    ]
}

pub fn png() -> Vec<Seed> {
    let enc = |img: image::DynamicImage| -> Vec<u8> {
        let mut c = Cursor::new(Vec::new());
        img.write_to(&mut c, image::ImageFormat::Png).expect("png");
        c.into_inner()
    };
    vec![seed("png_rgba_16x16", "png", enc(blp_image(16, 16, true))), seed("png_rgb_8x4", "png", enc(image::DynamicImage::ImageRgb8(blp_image(8, 4, false).to_rgb8())))]
}

// ------------------------------------------------------------------ DBC

/// the schema that `schema.yaml` (side file of the DBC seeds) describes
pub fn dbc_schema() -> wow_cdbc::Schema {
    use wow_cdbc::{FieldType, Schema, SchemaField};
    let mut s = Schema::new("Test");
    s.add_field(SchemaField::new("ID", FieldType::UInt32));
    s.add_field(SchemaField::new("Name", FieldType::String));
    s.add_field(SchemaField::new("Value", FieldType::Float32));
    s.add_field(SchemaField::new("Delta", FieldType::Int32));
    s.set_key_field("ID");
    s
}

/// (table bytes written by DbcWriter, YAML schema text)
pub fn dbc() -> Vec<Seed> {
    use wow_cdbc::{DbcParser, DbcWriter};
    let schema = dbc_schema;
    let yaml = "name: Test\nkey_field: ID\nfields:\n  - name: ID\n    type_name: UInt32\n  - name: Name\n    type_name: String\n  - name: Value\n    type_name: Float32\n  - name: Delta\n    type_name: Int32\n";
    // bootstrap table in the documented WDBC layout, then through the crate's own parser and writer
    let raw = |n: usize| -> Vec<u8> {
        let names = ["", "Alpha", "Beta gamma", "Delta", "Alpha"];
        let mut sb: Vec<u8> = vec![0];
        let mut offs = vec![0u32];
        for s in &names[1..] {
            offs.push(sb.len() as u32);
            sb.extend_from_slice(s.as_bytes());
            sb.push(0);
        }
        let mut v = b"WDBC".to_vec();
        for x in [n as u32, 4, 16, sb.len() as u32] {
            v.extend_from_slice(&x.to_le_bytes());
        }
        for i in 0..n {
            v.extend_from_slice(&(10 + i as u32 * 5).to_le_bytes());
            v.extend_from_slice(&offs[(i + 1) % offs.len()].to_le_bytes());
            v.extend_from_slice(&fl(i + 1).to_le_bytes());
            v.extend_from_slice(&(-(i as i32) * 1000).to_le_bytes());
        }
        v.extend_from_slice(&sb);
        v
    };
    let through = |bytes: &[u8]| -> Vec<u8> {
        let p = DbcParser::parse_bytes(bytes).expect("dbc parse").with_schema(schema()).expect("dbc schema");
        let rs = p.parse_records().expect("dbc records");
        let mut c = Cursor::new(Vec::new());
        DbcWriter::new(&mut c).with_schema(schema()).write_records(&rs).expect("dbc write");
        c.into_inner()
    };
    let mut out = vec![];
    for (name, n) in [("dbc_4rec", 4usize), ("dbc_1rec", 1), ("dbc_0rec", 0)] {
        let mut s = seed(name, "dbc", through(&raw(n)));
        s.side.push(("schema.yaml".into(), yaml.as_bytes().to_vec()));
        out.push(s);
    }
    out
}

// ------------------------------------------------------------------ M2 / skin / anim

pub fn m2() -> Vec<Seed> {
    use wow_m2::chunks::animation::{M2Animation, M2Range};
    use wow_m2::chunks::bone::M2Bone;
    use wow_m2::chunks::material::{M2BlendMode, M2Material, M2RenderFlags};
    use wow_m2::chunks::texture::{M2Texture, M2TextureFlags, M2TextureType};
    use wow_m2::chunks::M2Vertex;
    use wow_m2::common::{C2Vector, C3Vector, M2ArrayString};
    use wow_m2::header::M2Header;
    use wow_m2::{M2Model, M2Version};
    let build = |version: M2Version, nverts: usize| -> Vec<u8> {
        let mut m = M2Model::default();
        m.header = M2Header::new(version);
        m.name = Some("World\\Model_01.m2".to_string());
        m.global_sequences = vec![100, 2000];
        let vnum = version.to_header_version();
        let classic = vnum <= 256;
        let a = M2Animation {
            animation_id: 4,
            sub_animation_id: 0,
            start_timestamp: 0,
            end_timestamp: if classic { Some(1000) } else { None },
            movement_speed: 1.0,
            flags: 0x20,
            frequency: 32767,
            padding: 0,
            replay: if classic { Some(M2Range { minimum: 0.0, maximum: 1.0 }) } else { None },
            minimum_extent: if !classic { Some([-1.0, -1.0, -1.0]) } else { None },
            maximum_extent: if !classic { Some([1.0, 1.0, 1.0]) } else { None },
            extent_radius: if !classic { Some(1.75) } else { None },
            next_animation: if !classic { Some(-1) } else { None },
            aliasing: if !classic { Some(0) } else { None },
        };
        m.animations = vec![a];
        m.animation_lookup = vec![0];
        for i in 0..2usize {
            let mut b = M2Bone::new([-1i32, 0][i], [-1i16, 0][i]);
            b.pivot = C3Vector { x: fl(i), y: fl(i + 1), z: fl(i + 2) };
            m.bones.push(b);
        }
        m.key_bone_lookup = vec![0, 1];
        for i in 0..nverts {
            m.vertices.push(M2Vertex {
                position: C3Vector { x: fl(i), y: fl(i + 3), z: fl(i + 5) },
                bone_weights: [255, 0, 0, 0],
                bone_indices: [(i % 2) as u8, 0, 0, 0],
                normal: C3Vector { x: 0.0, y: 0.0, z: 1.0 },
                tex_coords: C2Vector { x: fl(i + 1), y: fl(i + 2) },
                tex_coords2: Some(C2Vector { x: 0.0, y: 0.0 }),
            });
        }
        m.textures = vec![M2Texture { texture_type: M2TextureType::Body, flags: M2TextureFlags::from_bits_retain(0), filename: M2ArrayString::default() }];
        m.materials = vec![M2Material { flags: M2RenderFlags::from_bits_retain(0), blend_mode: M2BlendMode::from_bits_retain(0) }];
        m.raw_data.bone_lookup_table = vec![0, 1];
        m.raw_data.texture_lookup_table = vec![0];
        m.raw_data.texture_units = vec![0];
        m.raw_data.transparency_lookup_table = vec![0];
        m.raw_data.texture_animation_lookup = vec![0xFFFF];
        m.header.bounding_box_min = [-1.0, -1.0, -1.0];
        m.header.bounding_box_max = [1.0, 1.0, 1.0];
        m.header.bounding_sphere_radius = 1.75;
        let mut c = Cursor::new(Vec::new());
        m.write(&mut c).expect("m2 write");
        c.into_inner()
    };
    vec![
        seed("m2_vanilla", "m2", build(M2Version::Vanilla, 3)),
        seed("m2_tbc", "m2", build(M2Version::TBC, 3)),
        seed("m2_wotlk", "m2", build(M2Version::WotLK, 3)),
        seed("m2_cata", "m2", build(M2Version::Cataclysm, 3)),
        seed("m2_mop", "m2", build(M2Version::MoP, 3)),
        // parses, but M2Model::validate reports "Model has no vertices"
        seed("m2_wotlk_no_vertices", "m2", build(M2Version::WotLK, 0)),
    ]
}

pub fn skin() -> Vec<Seed> {
    use wow_m2::skin::{OldSkin, OldSkinHeader, Skin, SkinBatch, SkinFile, SkinHeader, SkinSubmesh};
    use wow_m2::M2Version;
    let submesh = |i: usize| SkinSubmesh {
        id: i as u16,
        level: 0,
        vertex_start: 0,
        vertex_count: 6,
        triangle_start: 0,
        triangle_count: 6,
        bone_count: 1,
        bone_start: 0,
        bone_influence: 1,
        center: [fl(i), fl(i + 1), fl(i + 2)],
        sort_center: [fl(i + 3), fl(i + 4), fl(i + 5)],
        bounding_radius: 2.5,
    };
    let batch = |i: usize| SkinBatch {
        flags: 0,
        priority_plane: 0,
        shader_id: 0,
        skin_section_index: i as u16,
        geoset_index: 0,
        color_index: 0xFFFF,
        material_index: 0,
        material_layer: 0,
        texture_count: 1,
        texture_combo_index: 0,
        texture_coord_combo_index: 0,
        texture_weight_combo_index: 0,
        texture_transform_combo_index: 0xFFFF,
    };
    let indices: Vec<u16> = vec![0, 1, 2, 3, 4, 5];
    let triangles: Vec<u16> = vec![0, 1, 2, 2, 1, 3, 3, 4, 5];
    let bone_indices: Vec<u8> = vec![0, 0, 0, 0, 1, 0, 0, 0, 0, 1, 0, 0, 0, 0, 0, 0, 1, 1, 0, 0, 0, 0, 0, 1];
    let w = |s: &SkinFile| -> Vec<u8> {
        let mut c = Cursor::new(Vec::new());
        s.write(&mut c).expect("skin write");
        c.into_inner()
    };
    let mut oh = OldSkinHeader::new();
    oh.bone_count_max = 21;
    let old = SkinFile::Old(OldSkin { header: oh, indices: indices.clone(), triangles: triangles.clone(), bone_indices: bone_indices.clone(), submeshes: vec![submesh(0), submesh(1)], batches: vec![batch(0), batch(1)] });
    let mut nh = SkinHeader::new(M2Version::Cataclysm);
    nh.vertex_count = 6;
    let new = SkinFile::New(Skin { header: nh, indices, triangles, bone_indices, submeshes: vec![submesh(0), submesh(1)], batches: vec![batch(0), batch(1)] });
    vec![seed("skin_old", "skin", w(&old)), seed("skin_new_cata", "skin", w(&new))]
}

pub fn anim() -> Vec<Seed> {
    use wow_m2::anim::*;
    use wow_m2::common::{C3Vector, Quaternion};
    let bone = |j: usize| AnimBoneAnimation {
        bone_id: 5 + j as u32,
        translation: Some(AnimTranslation { timestamps: vec![0, 33, 66], translations: (0..3).map(|k| C3Vector { x: fl(k + j), y: fl(k + 1), z: fl(k + 2) }).collect() }),
        rotation: Some(AnimRotation { timestamps: vec![0, 50], rotations: (0..2).map(|k| Quaternion { x: fl(k), y: fl(k + 3), z: fl(k + 5), w: 1.0 }).collect() }),
        scaling: None,
    };
    let sections: Vec<AnimSection> = (0..2usize)
        .map(|s| AnimSection { header: AnimSectionHeader { magic: *b"AFID", id: [1u32, 60][s], start: [0u32, 100][s], end: [90u32, 3333][s] }, bone_animations: vec![bone(0), bone(1)] })
        .collect();
    let w = |a: &AnimFile| -> Vec<u8> {
        let mut c = Cursor::new(Vec::new());
        a.write(&mut c).expect("anim write");
        c.into_inner()
    };
    let entries = sections.iter().map(|s| AnimEntry { id: s.header.id, offset: 0, size: 0 }).collect();
    let modern = AnimFile {
        format: AnimFormat::Modern,
        metadata: AnimMetadata::Modern { header: AnimHeader { magic: ANIM_MAGIC, version: 1, id_count: 2, unknown: 0, anim_entry_offset: 20 }, entries },
        sections: sections.clone(),
    };
    let legacy = AnimFile {
        format: AnimFormat::Legacy,
        metadata: AnimMetadata::Legacy { file_size: 0, animation_count: 2, structure_hints: LegacyStructureHints { appears_valid: true, estimated_blocks: 2, has_timestamps: false } },
        sections,
    };
    vec![seed("anim_modern", "anim", w(&modern)), seed("anim_legacy", "anim", w(&legacy))]
}

// ------------------------------------------------------------------ MPQ

pub struct MpqSeed {
    pub seed: Seed,
}

/// Archives made by the real `ArchiveBuilder` in `dir`.
pub fn mpq(dir: &std::path::Path) -> Vec<MpqSeed> {
    use wow_mpq::{compression::flags, ArchiveBuilder, FormatVersion, ListfileOption};
    let members = |n: usize| -> Vec<(String, Vec<u8>)> {
        (0..n)
            .map(|i| {
                let name = ["readme.txt", "data\\table.dbc", "Interface\\Icons\\Temp.blp", "big.bin"][i % 4].to_string();
                let len = [40usize, 700, 5000, 70_000][i % 4];
                (name, vcore::gen::content(["period251", "sparse", "period2", "half"][i % 4], len, 4096, i as u64))
            })
            .collect()
    };
    let mut out = vec![];
    for (name, ver, comp, n) in [
        ("mpq_v1_zlib_3", FormatVersion::V1, flags::ZLIB, 3usize),
        ("mpq_v2_none_4", FormatVersion::V2, 0u8, 4),
        ("mpq_v2_bzip2_2", FormatVersion::V2, flags::BZIP2, 2),
        ("mpq_v4_zlib_4", FormatVersion::V4, flags::ZLIB, 4),
    ] {
        let ms = members(n);
        let mut b = ArchiveBuilder::new().version(ver).default_compression(comp).listfile_option(ListfileOption::Generate);
        for (n, d) in &ms {
            b = b.add_file_data(d.clone(), n);
        }
        let p = dir.join(format!("{name}.seed.mpq"));
        b.build(&p).expect("mpq build");
        let bytes = std::fs::read(&p).expect("read mpq");
        let _ = std::fs::remove_file(&p);
        out.push(MpqSeed { seed: seed(name, "mpq", bytes) });
    }
    out
}
