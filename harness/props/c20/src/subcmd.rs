//! Space `subcmd`: every sub-command template x seed x damage class, judged by uniform rules only.
use crate::oracle::*;
use crate::run::*;
use crate::seeds::{self, Seed};
use serde_json::{json, Value};
use std::path::{Path, PathBuf};
use vcore::*;

// ---------------------------------------------------------------------- templates

#[derive(Clone, Copy, Debug, PartialEq, Eq)]
pub enum Class {
    /// info / list / tree / debug ...: only rule R1 applies
    Info,
    /// needs a full parse of the input: convert, export, extract, rebuild
    Full,
    /// validate
    Validate,
}

#[derive(Clone, Copy, Debug, PartialEq, Eq)]
pub enum Extra {
    None,
    /// `mpq extract` of everything into {OUTDIR}
    Extract { skip: bool },
    /// `mpq rebuild` into {OUT}
    Rebuild,
    /// the input is arbitrary bytes for this sub-command: only `nonexistent` can make it fail
    RawInput,
}

#[derive(Clone, Debug)]
pub struct Tpl {
    pub label: String,
    pub fam: &'static str,
    pub sub: &'static str,
    pub kind: Kind,
    pub args: Vec<String>,
    pub class: Class,
    /// (kind of the output file, extension)
    pub out: Option<(Kind, &'static str)>,
    /// version argument relevant for the library's parse of the input
    pub in_ver: Option<&'static str>,
    /// version argument relevant for the library's parse of the output
    pub out_ver: Option<&'static str>,
    /// kind used for the library's parse of the input (defaults to `kind`)
    pub parse_kind: Kind,
    pub extra: Extra,
}

fn t(fam: &'static str, sub: &'static str, variant: &str, kind: Kind, class: Class, args: &[&str]) -> Tpl {
    let mut a: Vec<String> = vec![fam.to_string()];
    a.extend(sub.split(' ').map(|s| s.to_string()));
    a.extend(args.iter().map(|s| s.to_string()));
    Tpl {
        label: if variant.is_empty() { format!("{fam} {sub}") } else { format!("{fam} {sub} [{variant}]") },
        fam,
        sub,
        kind,
        args: a,
        class,
        out: None,
        in_ver: None,
        out_ver: None,
        parse_kind: kind,
        extra: Extra::None,
    }
}
impl Tpl {
    fn out(mut self, k: Kind, ext: &'static str) -> Self {
        self.out = Some((k, ext));
        self
    }
    fn extra(mut self, e: Extra) -> Self {
        self.extra = e;
        self
    }
    fn in_ver(mut self, v: &'static str) -> Self {
        self.in_ver = Some(v);
        self
    }
    fn out_ver(mut self, v: &'static str) -> Self {
        self.out_ver = Some(v);
        self
    }
    fn parse_kind(mut self, k: Kind) -> Self {
        self.parse_kind = k;
        self
    }
}

/// Every sub-command the tool offers (`--help` at every level), with its option variants.
pub fn templates() -> Vec<Tpl> {
    use Class::*;
    use Kind::*;
    let mut v: Vec<Tpl> = vec![];
    // ---- mpq
    v.push(t("mpq", "info", "", Mpq, Info, &["{IN}"]));
    v.push(t("mpq", "info", "member", Mpq, Info, &["{IN}", "readme.txt"]));
    v.push(t("mpq", "info", "tables", Mpq, Info, &["{IN}", "--show-hash-table", "--show-block-table"]));
    v.push(t("mpq", "validate", "", Mpq, Validate, &["{IN}"]));
    v.push(t("mpq", "validate", "checksums threads=2", Mpq, Validate, &["{IN}", "--check-checksums", "--threads", "2"]));
    v.push(t("mpq", "list", "", Mpq, Info, &["{IN}"]));
    v.push(t("mpq", "list", "long", Mpq, Info, &["{IN}", "--long"]));
    v.push(t("mpq", "list", "filter", Mpq, Info, &["{IN}", "-f", "*.txt"]));
    v.push(t("mpq", "list", "show-patches", Mpq, Info, &["{IN}", "--show-patches"]));
    v.push(t("mpq", "list", "use-db", Mpq, Info, &["{IN}", "--use-db"]));
    v.push(t("mpq", "list", "record-to-db", Mpq, Info, &["{IN}", "--record-to-db"]));
    v.push(t("mpq", "extract", "all preserve-paths", Mpq, Full, &["{IN}", "-o", "{OUTDIR}", "-p"]).extra(Extra::Extract { skip: false }));
    v.push(t("mpq", "extract", "all preserve-paths threads=2", Mpq, Full, &["{IN}", "-o", "{OUTDIR}", "-p", "--threads", "2"]).extra(Extra::Extract { skip: false }));
    v.push(t("mpq", "extract", "all preserve-paths skip-errors", Mpq, Full, &["{IN}", "-o", "{OUTDIR}", "-p", "--skip-errors"]).extra(Extra::Extract { skip: true }));
    v.push(t("mpq", "extract", "file-type", Mpq, Full, &["{IN}", "-o", "{OUTDIR}", "-f", ".txt"]));
    v.push(t("mpq", "extract", "patch chain, damaged base", Mpq, Full, &["{IN}", "-o", "{OUTDIR}", "-p", "--patch", "{OTHER}"]));
    v.push(t("mpq", "extract", "patch chain, damaged patch", Mpq, Full, &["{OTHER}", "-o", "{OUTDIR}", "-p", "--patch", "{IN}"]));
    v.push(t("mpq", "create", "", Raw, Full, &["{OUT}", "--add", "{IN}"]).out(Mpq, "mpq").extra(Extra::RawInput));
    v.push(t("mpq", "create", "v1 none listfile", Raw, Full, &["{OUT}", "--add", "{IN}", "--version", "v1", "--compression", "none", "--with-listfile"]).out(Mpq, "mpq").extra(Extra::RawInput));
    v.push(t("mpq", "rebuild", "", Mpq, Full, &["{IN}", "{OUT}"]).out(Mpq, "mpq").extra(Extra::Rebuild));
    v.push(t("mpq", "rebuild", "upgrade-to v4", Mpq, Full, &["{IN}", "{OUT}", "--upgrade-to", "v4"]).out(Mpq, "mpq").extra(Extra::Rebuild));
    v.push(t("mpq", "rebuild", "upgrade-to v1 compression bzip2", Mpq, Full, &["{IN}", "{OUT}", "--upgrade-to", "v1", "--compression", "bzip2"]).out(Mpq, "mpq").extra(Extra::Rebuild));
    v.push(t("mpq", "rebuild", "verify", Mpq, Full, &["{IN}", "{OUT}", "--verify"]).out(Mpq, "mpq").extra(Extra::Rebuild));
    v.push(t("mpq", "rebuild", "list-only", Mpq, Full, &["{IN}", "{OUT}", "--list-only"]));
    v.push(t("mpq", "compare", "damaged source", Mpq, Info, &["{IN}", "{OTHER}"]));
    v.push(t("mpq", "compare", "damaged target", Mpq, Info, &["{OTHER}", "{IN}"]));
    v.push(t("mpq", "compare", "content-check summary", Mpq, Info, &["{IN}", "{OTHER}", "--content-check", "--output", "summary"]));
    v.push(t("mpq", "compare", "detailed json", Mpq, Info, &["{IN}", "{OTHER}", "--detailed", "--output", "json"]));
    v.push(t("mpq", "tree", "", Mpq, Info, &["{IN}", "--no-color"]));
    v.push(t("mpq", "tree", "compact depth=1", Mpq, Info, &["{IN}", "--no-color", "--compact", "--depth", "1", "--no-external-refs"]));
    v.push(t("mpq", "debug", "", Mpq, Info, &["{IN}"]));
    v.push(t("mpq", "debug", "all", Mpq, Info, &["{IN}", "--all"]));
    v.push(t("mpq", "debug", "all raw", Mpq, Info, &["{IN}", "--all", "--raw"]));
    v.push(t("mpq", "debug", "find", Mpq, Info, &["{IN}", "--find", "readme.txt"]));
    v.push(t("mpq", "debug", "entry", Mpq, Info, &["{IN}", "--entry", "0"]));
    v.push(t("mpq", "patch-chain", "", Mpq, Info, &["{IN}"]));
    v.push(t("mpq", "patch-chain", "damaged base, detailed", Mpq, Info, &["{IN}", "--patch", "{OTHER}", "-d"]));
    v.push(t("mpq", "patch-chain", "damaged patch", Mpq, Info, &["{OTHER}", "--patch", "{IN}"]));
    v.push(t("mpq", "db analyze", "", Mpq, Info, &["{IN}"]));
    v.push(t("mpq", "db import", "archive", Mpq, Info, &["{IN}", "archive"]));
    v.push(t("mpq", "db import", "listfile", Raw, Info, &["{IN}", "listfile"]).extra(Extra::RawInput));
    // ---- dbc
    v.push(t("dbc", "info", "", Dbc, Info, &["{IN}"]));
    v.push(t("dbc", "validate", "", Dbc, Validate, &["{IN}", "-s", "{SCHEMA}"]));
    v.push(t("dbc", "list", "", Dbc, Info, &["{IN}"]));
    v.push(t("dbc", "list", "schema limit=2", Dbc, Info, &["{IN}", "-s", "{SCHEMA}", "-l", "2"]));
    v.push(t("dbc", "export", "json file", Dbc, Full, &["{IN}", "-s", "{SCHEMA}", "-f", "json", "-o", "{OUT}"]).out(Json, "json"));
    v.push(t("dbc", "export", "csv file", Dbc, Full, &["{IN}", "-s", "{SCHEMA}", "-f", "csv", "-o", "{OUT}"]).out(AnyFile, "csv"));
    v.push(t("dbc", "export", "json stdout", Dbc, Full, &["{IN}", "-s", "{SCHEMA}"]));
    v.push(t("dbc", "analyze", "", Dbc, Info, &["{IN}"]));
    v.push(t("dbc", "analyze", "schema cache-strings sorted-keys", Dbc, Info, &["{IN}", "-s", "{SCHEMA}", "--cache-strings", "--sorted-keys"]));
    v.push(t("dbc", "analyze", "mmap", Dbc, Info, &["{IN}", "--mmap"]));
    v.push(t("dbc", "analyze", "lazy", Dbc, Info, &["{IN}", "--lazy"]));
    v.push(t("dbc", "discover", "", Dbc, Info, &["{IN}"]));
    v.push(t("dbc", "discover", "text file", Dbc, Info, &["{IN}", "-o", "{OUT}"]).out(Text, "txt"));
    v.push(t("dbc", "discover", "yaml file", Dbc, Info, &["{IN}", "--yaml", "-o", "{OUT}"]).out(Text, "yaml"));
    v.push(t("dbc", "discover", "max-records=1", Dbc, Info, &["{IN}", "-m", "1"]));
    // damaged schema, intact table
    v.push(t("dbc", "validate", "damaged schema", Schema, Validate, &["{OTHERDBC}", "-s", "{IN}"]));
    v.push(t("dbc", "export", "damaged schema", Schema, Full, &["{OTHERDBC}", "-s", "{IN}", "-o", "{OUT}"]).out(Json, "json"));
    v.push(t("dbc", "list", "damaged schema", Schema, Info, &["{OTHERDBC}", "-s", "{IN}"]));
    // ---- dbd (text definitions: only an unreadable input is unambiguous)
    v.push(t("dbd", "convert", "", Raw, Info, &["{IN}", "-o", "{OUTDIR}", "--all"]).extra(Extra::RawInput));
    // ---- blp
    v.push(t("blp", "info", "", Blp, Info, &["{IN}"]));
    v.push(t("blp", "info", "all", Blp, Info, &["{IN}", "--all"]));
    v.push(t("blp", "info", "mipmaps raw compression size best=8", Blp, Info, &["{IN}", "--mipmaps", "--raw", "--compression", "--size", "--best-mipmap-for", "8"]));
    v.push(t("blp", "validate", "", Blp, Validate, &["{IN}"]));
    v.push(t("blp", "validate", "strict", Blp, Validate, &["{IN}", "--strict"]));
    v.push(t("blp", "convert", "to png", Blp, Full, &["{IN}", "{OUT}"]).out(Image, "png"));
    v.push(t("blp", "convert", "to bmp", Blp, Full, &["{IN}", "{OUT}"]).out(Image, "bmp"));
    v.push(t("blp", "convert", "to tga, explicit formats", Blp, Full, &["{IN}", "{OUT}", "-i", "blp", "-o", "tga"]).out(Image, "tga"));
    v.push(t("blp", "convert", "mip level 1 to png", Blp, Full, &["{IN}", "{OUT}", "--mipmap-level", "1"]).out(Image, "png"));
    v.push(t("blp", "convert", "to blp1 jpeg (default)", Blp, Full, &["{IN}", "{OUT}"]).out(Blp, "blp"));
    for (ver, fmt) in [("blp0", "jpeg"), ("blp0", "raw1"), ("blp1", "raw1"), ("blp2", "raw1"), ("blp2", "raw3"), ("blp2", "jpeg"), ("blp2", "dxt1"), ("blp2", "dxt3"), ("blp2", "dxt5")] {
        v.push(t("blp", "convert", &format!("blp to {ver} {fmt}"), Blp, Full, &["{IN}", "{OUT}", "--blp-version", ver, "--blp-format", fmt]).out(Blp, "blp"));
        v.push(t("blp", "convert", &format!("png to {ver} {fmt}"), Png, Full, &["{IN}", "{OUT}", "--blp-version", ver, "--blp-format", fmt]).out(Blp, "blp"));
    }
    v.push(t("blp", "convert", "png to blp2 dxt5 no-mipmaps nearest fastest alpha=8", Png, Full, &["{IN}", "{OUT}", "--blp-version", "blp2", "--blp-format", "dxt5", "--no-mipmaps", "--mipmap-filter", "nearest", "--dxt-compression", "fastest", "--alpha-bits", "8"]).out(Blp, "blp"));
    v.push(t("blp", "convert", "png to bmp", Png, Full, &["{IN}", "{OUT}"]).out(Image, "bmp"));
    // ---- m2 (+ skin, anim, blp-info)
    v.push(t("m2", "info", "", M2, Info, &["{IN}"]));
    v.push(t("m2", "info", "detailed", M2, Info, &["{IN}", "-d"]));
    v.push(t("m2", "validate", "", M2, Validate, &["{IN}"]));
    v.push(t("m2", "validate", "warnings", M2, Validate, &["{IN}", "-w"]));
    v.push(t("m2", "tree", "", M2, Info, &["{IN}"]));
    v.push(t("m2", "tree", "size refs depth=2", M2, Info, &["{IN}", "-s", "-r", "-d", "2"]));
    for ver in ["classic", "tbc", "wotlk", "cataclysm", "mop", "wod", "legion", "3.3.5a"] {
        v.push(t("m2", "convert", &format!("to {ver}"), M2, Full, &["{IN}", "{OUT}", "--version", ver]).out(M2, "m2"));
    }
    v.push(t("m2", "skin-info", "", Skin, Info, &["{IN}"]));
    v.push(t("m2", "skin-info", "detailed", Skin, Info, &["{IN}", "-d"]));
    v.push(t("m2", "skin-info", "old-format", Skin, Info, &["{IN}", "--old-format"]));
    for ver in ["wotlk", "cataclysm", "mop", "legion"] {
        v.push(t("m2", "skin-convert", &format!("to {ver}"), Skin, Full, &["{IN}", "{OUT}", "--version", ver]).out(Skin, "skin"));
    }
    v.push(t("m2", "anim-info", "", Anim, Info, &["{IN}"]));
    v.push(t("m2", "anim-info", "detailed", Anim, Info, &["{IN}", "-d"]));
    for ver in ["wotlk", "legion"] {
        v.push(t("m2", "anim-convert", &format!("to {ver}"), Anim, Full, &["{IN}", "{OUT}", "--version", ver]).out(Anim, "anim"));
    }
    v.push(t("m2", "blp-info", "", Blp, Info, &["{IN}"]));
    v.push(t("m2", "blp-info", "detailed", Blp, Info, &["{IN}", "-d"]));
    // ---- wmo
    v.push(t("wmo", "info", "", Wmo, Info, &["{IN}"]));
    v.push(t("wmo", "info", "detailed", Wmo, Info, &["{IN}", "-d"]));
    v.push(t("wmo", "validate", "", Wmo, Validate, &["{IN}"]));
    v.push(t("wmo", "validate", "warnings detailed", Wmo, Validate, &["{IN}", "-w", "-d"]));
    for ver in ["classic", "tbc", "wotlk", "cataclysm", "mop", "wod", "legion"] {
        v.push(t("wmo", "convert", &format!("to {ver}"), Wmo, Full, &["{IN}", "{OUT}", "--version", ver]).out(Wmo, "wmo").parse_kind(WmoRoot));
    }
    v.push(t("wmo", "export", "", Wmo, Full, &["{IN}", "-o", "{OUT}"]).out(AnyFile, "obj"));
    v.push(t("wmo", "list", "", Wmo, Info, &["{IN}"]));
    v.push(t("wmo", "extract-groups", "", Wmo, Full, &["{IN}", "-o", "{OUTDIR}"]));
    v.push(t("wmo", "tree", "", Wmo, Info, &["{IN}", "--no-color"]));
    v.push(t("wmo", "tree", "detailed show-refs compact depth=2", Wmo, Info, &["{IN}", "--no-color", "--detailed", "--show-refs", "--compact", "--depth", "2", "--no-metadata"]));
    // ---- adt
    v.push(t("adt", "info", "", Adt, Info, &["{IN}"]));
    v.push(t("adt", "info", "detailed", Adt, Info, &["{IN}", "-d"]));
    v.push(t("adt", "validate", "", Adt, Validate, &["{IN}"]));
    v.push(t("adt", "validate", "strict warnings", Adt, Validate, &["{IN}", "-l", "strict", "-w"]));
    for ver in ["classic", "tbc", "wotlk", "cataclysm", "mop"] {
        v.push(t("adt", "convert", &format!("to {ver}"), Adt, Full, &["{IN}", "{OUT}", "--to", ver]).out(Adt, "adt"));
    }
    v.push(t("adt", "tree", "", Adt, Info, &["{IN}", "--no-color"]));
    v.push(t("adt", "tree", "show-refs compact depth=2", Adt, Info, &["{IN}", "--no-color", "--show-refs", "--compact", "--depth", "2", "--no-metadata"]));
    // ---- wdt
    v.push(t("wdt", "info", "", Wdt, Info, &["{IN}"]));
    v.push(t("wdt", "info", "version Classic detailed", Wdt, Info, &["{IN}", "--version", "Classic", "-d"]));
    v.push(t("wdt", "validate", "", Wdt, Validate, &["{IN}"]).in_ver("WotLK"));
    v.push(t("wdt", "validate", "version BfA warnings", Wdt, Validate, &["{IN}", "--version", "BfA", "-w"]).in_ver("BfA"));
    for (f, to) in [("Classic", "WotLK"), ("WotLK", "Cataclysm"), ("WotLK", "BfA"), ("Cataclysm", "WotLK"), ("BfA", "Classic"), ("MoP", "Legion"), ("TBC", "MoP")] {
        v.push(t("wdt", "convert", &format!("{f} to {to}"), Wdt, Full, &["{IN}", "{OUT}", "-f", f, "-t", to]).out(Wdt, "wdt").in_ver(f).out_ver(to));
    }
    v.push(t("wdt", "convert", "same version", Wdt, Full, &["{IN}", "{OUT}", "-f", "WotLK", "-t", "WotLK"]).out(Wdt, "wdt").in_ver("WotLK").out_ver("WotLK"));
    v.push(t("wdt", "convert", "preview", Wdt, Full, &["{IN}", "{OUT}", "-f", "WotLK", "-t", "Cataclysm", "--preview"]).out(Wdt, "wdt").in_ver("WotLK").out_ver("Cataclysm"));
    v.push(t("wdt", "tiles", "", Wdt, Info, &["{IN}"]));
    v.push(t("wdt", "tiles", "json", Wdt, Info, &["{IN}", "-f", "json"]));
    v.push(t("wdt", "tiles", "csv version Cataclysm", Wdt, Info, &["{IN}", "-f", "csv", "--version", "Cataclysm"]));
    v.push(t("wdt", "tree", "", Wdt, Info, &["{IN}", "--no-color"]));
    v.push(t("wdt", "tree", "compact depth=1", Wdt, Info, &["{IN}", "--no-color", "--compact", "--depth", "1", "--no-external-refs"]));
    // ---- wdl
    v.push(t("wdl", "info", "", Wdl, Info, &["{IN}"]));
    v.push(t("wdl", "validate", "", Wdl, Validate, &["{IN}"]));
    v.push(t("wdl", "validate", "version wotlk", Wdl, Validate, &["{IN}", "--version", "wotlk"]).in_ver("wotlk"));
    for ver in ["vanilla", "wotlk", "cataclysm", "mop", "legion"] {
        v.push(t("wdl", "convert", &format!("to {ver}"), Wdl, Full, &["{IN}", "{OUT}", "--to", ver]).out(Wdl, "wdl").out_ver(ver));
    }
    v.push(t("wdl", "convert", "from wotlk to legion", Wdl, Full, &["{IN}", "{OUT}", "--from", "wotlk", "--to", "legion"]).out(Wdl, "wdl").in_ver("wotlk").out_ver("legion"));
    v.push(t("wdl", "tree", "", Wdl, Info, &["{IN}", "--no-color"]));
    v.push(t("wdl", "tree", "version Legion compact depth=1", Wdl, Info, &["{IN}", "--version", "Legion", "--no-color", "--compact", "--depth", "1"]));
    v
}

pub fn print_templates() {
    for (i, t) in templates().iter().enumerate() {
        println!("{i:3} {:55} {:?} {:?} {:?}", t.label, t.kind, t.class, t.args);
    }
}

// ---------------------------------------------------------------------- damage classes

#[derive(Clone, Debug, PartialEq)]
pub enum Damage {
    Valid,
    Nonexistent,
    Empty,
    Garbage,
    /// keep the first n bytes
    Trunc(usize),
    /// keep num/den of the bytes
    Frac(usize, usize),
    Minus1,
    /// the format family's first size/count field (see `size_offset`) = 0xFFFF_FFFF
    SizeField,
    /// little-endian u32 at this offset = 0xFFFF_FFFF
    U32At(usize),
    /// 16 bytes of 0xFF at num/16 of the file
    Window(usize),
    /// (archives) the stored bytes of one member overwritten with 0xFF
    MemberPayload,
}
impl Damage {
    pub fn name(&self) -> String {
        match self {
            Damage::Valid => "valid".into(),
            Damage::Nonexistent => "nonexistent".into(),
            Damage::Empty => "empty".into(),
            Damage::Garbage => "garbage".into(),
            Damage::Trunc(n) => format!("truncated-to-{n}-bytes"),
            Damage::Frac(a, b) => format!("truncated-at-{a}/{b}"),
            Damage::Minus1 => "last-byte-missing".into(),
            Damage::SizeField => "first-size-field-0xFFFFFFFF".into(),
            Damage::U32At(o) => format!("u32-at-{o}-0xFFFFFFFF"),
            Damage::Window(k) => format!("16x0xFF-at-{k}/16"),
            Damage::MemberPayload => "member-payload-overwritten".into(),
        }
    }
    /// class name for rule R1 (exit must be non-zero for every sub-command)
    pub fn uniform(&self) -> Option<&'static str> {
        match self {
            Damage::Nonexistent => Some("nonexistent"),
            Damage::Empty => Some("empty"),
            Damage::Garbage => Some("garbage"),
            Damage::Trunc(n) if *n < 8 => Some("truncated-below-8-bytes"),
            _ => None,
        }
    }
    fn coarse(&self) -> &'static str {
        match self {
            Damage::Valid => "valid",
            Damage::Nonexistent | Damage::Empty | Damage::Garbage => "unusable",
            Damage::Trunc(_) | Damage::Frac(..) | Damage::Minus1 => "truncated",
            _ => "corrupted",
        }
    }
}

pub fn damages(tier: Tier) -> Vec<Damage> {
    let mut v = vec![Damage::Valid, Damage::Nonexistent, Damage::Empty, Damage::Garbage, Damage::Trunc(5), Damage::Frac(1, 2), Damage::Minus1, Damage::SizeField, Damage::Window(10), Damage::MemberPayload];
    if tier == Tier::Thorough {
        for n in [1usize, 2, 3, 4, 6, 7, 8, 12, 16, 20, 32, 64] {
            v.push(Damage::Trunc(n));
        }
        for (a, b) in [(1usize, 8usize), (1, 4), (3, 8), (5, 8), (3, 4), (7, 8)] {
            v.push(Damage::Frac(a, b));
        }
        for o in (0..96).step_by(4) {
            v.push(Damage::U32At(o));
        }
        for k in [1usize, 2, 4, 6, 8, 12, 14, 15] {
            v.push(Damage::Window(k));
        }
    }
    v
}
pub fn damage_names(tier: Tier) -> Vec<String> {
    damages(tier).iter().map(|d| d.name()).collect()
}

const GARBAGE: &[u8] = b"GARBAGE! this is not a World of Warcraft file of any kind.\n\x00\x01\x02\x03\xff\xfe\xfd\xfc";

/// offset of the first size / count field of the family's container
fn size_offset(kind: Kind) -> usize {
    match kind {
        // second chunk header: magic at 12, size at 16 (MVER is 4+4+4 bytes)
        Kind::Wdt | Kind::Wdl | Kind::Adt | Kind::Wmo | Kind::WmoRoot => 16,
        // MD20: magic, version, name.count
        Kind::M2 => 8,
        // 'SKIN' magic then indices.count (old layout has no magic: first count)
        Kind::Skin => 4,
        Kind::Anim => 8,
        // BLP1/BLP2: width at 12
        Kind::Blp => 12,
        // WDBC: record_count
        Kind::Dbc => 4,
        // hash table size
        Kind::Mpq => 24,
        // IHDR width
        Kind::Png => 16,
        _ => 0,
    }
}

/// None = the file must not exist
fn apply(d: &Damage, s: &Seed, kind: Kind) -> Option<Vec<u8>> {
    let b = &s.bytes;
    let put = |mut v: Vec<u8>, off: usize, n: usize| -> Vec<u8> {
        for k in off..(off + n).min(v.len()) {
            v[k] = 0xFF;
        }
        v
    };
    Some(match d {
        Damage::Valid => b.clone(),
        Damage::Nonexistent => return None,
        Damage::Empty => vec![],
        Damage::Garbage => GARBAGE.iter().cycle().take(256).cloned().collect(),
        Damage::Trunc(n) => b[..(*n).min(b.len())].to_vec(),
        Damage::Frac(a, c) => b[..b.len() * a / c].to_vec(),
        Damage::Minus1 => b[..b.len().saturating_sub(1)].to_vec(),
        Damage::SizeField => put(b.clone(), size_offset(kind), 4),
        Damage::U32At(o) => put(b.clone(), *o, 4),
        Damage::Window(k) => put(b.clone(), b.len() * k / 16, 16),
        Damage::MemberPayload => match s.payload_span {
            Some((pos, len)) => put(b.clone(), pos as usize + 1, (len as usize).saturating_sub(1)),
            // other families: the middle third
            None => put(b.clone(), b.len() / 3, b.len() / 3),
        },
    })
}

// ---------------------------------------------------------------------- seeds registry

pub fn all_seeds(dir: &Path) -> Vec<(Kind, Vec<Seed>)> {
    let mut mpqs: Vec<Seed> = vec![];
    for m in seeds::mpq(dir) {
        let mut s = m.seed;
        // stored bytes of the compressible member
        let p = dir.join("span.mpq");
        std::fs::write(&p, &s.bytes).unwrap();
        s.payload_span = mpq_member_span(&p, "data\\table.dbc");
        let _ = std::fs::remove_file(&p);
        mpqs.push(s);
    }
    let schema = seeds::dbc()[0].side[0].1.clone();
    vec![
        (Kind::Mpq, mpqs),
        (Kind::Dbc, seeds::dbc()),
        (Kind::Schema, vec![Seed { name: "schema_yaml", ext: "yaml", bytes: schema, side: vec![], payload_span: None }]),
        (Kind::Blp, seeds::blp()),
        (Kind::Png, seeds::png()),
        (Kind::M2, seeds::m2()),
        (Kind::Skin, seeds::skin()),
        (Kind::Anim, seeds::anim()),
        (Kind::Wmo, seeds::wmo()),
        (Kind::Adt, seeds::adt()),
        (Kind::Wdt, seeds::wdt()),
        (Kind::Wdl, seeds::wdl()),
        (
            Kind::Raw,
            vec![Seed { name: "raw_text", ext: "txt", bytes: b"Interface\\Icons\\Temp.blp\r\nreadme.txt\r\nworld\\maps\\azeroth\\azeroth.wdt\r\n".to_vec(), side: vec![], payload_span: None }],
        ),
    ]
}

// ---------------------------------------------------------------------- the space

pub struct SubCmd {
    tpls: Vec<Tpl>,
    dmg: Vec<Damage>,
    seeds: Vec<(Kind, Vec<Seed>)>,
    /// (template, seed index within kind, damage)
    cases: Vec<(usize, usize, usize)>,
}

impl SubCmd {
    pub fn new(tier: Tier) -> Self {
        let sc = Scratch::new("c20-seeds");
        let seeds = all_seeds(&sc.0);
        drop(sc);
        let tpls = templates();
        let dmg = damages(tier);
        let mut cases = vec![];
        // simplest first: damage class outermost (valid, then the unusable inputs, ...)
        for (di, d) in dmg.iter().enumerate() {
            for (ti, t) in tpls.iter().enumerate() {
                let n = seeds.iter().find(|(k, _)| *k == t.kind).map(|x| x.1.len()).unwrap_or(0);
                if t.extra == Extra::RawInput && !matches!(d, Damage::Valid | Damage::Nonexistent) {
                    continue;
                }
                if *d == Damage::MemberPayload && t.kind != Kind::Mpq {
                    continue;
                }
                for si in 0..n {
                    cases.push((ti, si, di));
                }
            }
        }
        SubCmd { tpls, dmg, seeds, cases }
    }
    fn seeds_of(&self, k: Kind) -> &Vec<Seed> {
        &self.seeds.iter().find(|(x, _)| *x == k).unwrap().1
    }
}

pub fn axes(tier: Tier) -> Value {
    let s = SubCmd::new(tier);
    let mut per_kind = serde_json::Map::new();
    for (k, v) in &s.seeds {
        per_kind.insert(format!("{k:?}"), json!(v.len()));
    }
    let mut fams = std::collections::BTreeMap::new();
    for t in &s.tpls {
        *fams.entry(t.fam).or_insert(0u64) += 1;
    }
    json!({"templates": s.tpls.len(), "templates_per_family": fams, "damage_classes": s.dmg.len(), "seeds_per_kind": per_kind, "cases": s.cases.len()})
}

const NOOP_MARKERS: [&str; 3] = ["No conversion needed", "Preview mode", "Dry run completed"];

fn safe_member(n: &str) -> bool {
    !n.is_empty() && !n.contains("..") && !n.starts_with('/') && !n.starts_with('\\') && !n.contains(':') && !n.chars().any(|c| c.is_control())
}

impl Space for SubCmd {
    fn len(&self) -> u64 {
        self.cases.len() as u64
    }
    fn describe(&self, i: u64) -> Value {
        let (ti, si, di) = self.cases[i as usize];
        let t = &self.tpls[ti];
        let s = &self.seeds_of(t.kind)[si];
        json!({"space": "subcmd", "command": t.label, "family": t.fam, "args": t.args.join(" "), "seed": s.name, "damage": self.dmg[di].name()})
    }
    fn case_timeout(&self) -> u64 {
        200
    }
    fn run(&self, i: u64) -> CaseResult {
        let (ti, si, di) = self.cases[i as usize];
        let t = &self.tpls[ti];
        let d = &self.dmg[di];
        let seed = &self.seeds_of(t.kind)[si];
        let mut r = CaseResult::new();
        r.key = format!("{}|{}|{}", t.label, seed.name, d.name());
        let scratch = Scratch::new(&scratch_tag());
        let rn = Runner::new(&scratch.0, 20);
        // ---- prepare the input
        let in_name = format!("input.{}", seed.ext);
        let in_path = rn.cwd.join(&in_name);
        if let Some(b) = apply(d, seed, t.kind) {
            std::fs::write(&in_path, &b).expect("write input");
        }
        let mut schema_path: Option<PathBuf> = None;
        for (n, b) in &seed.side {
            std::fs::write(rn.cwd.join(n), b).unwrap();
            if n.ends_with(".yaml") {
                schema_path = Some(rn.cwd.join(n));
            }
        }
        let out_name = t.out.map(|(_, ext)| format!("output.{ext}")).unwrap_or_else(|| "output.bin".into());
        let out_path = rn.cwd.join(&out_name);
        let outdir = rn.cwd.join("outdir");
        let mut other_path: Option<PathBuf> = None;
        let args: Vec<String> = t
            .args
            .iter()
            .map(|a| match a.as_str() {
                "{IN}" => in_name.clone(),
                "{OUT}" => out_name.clone(),
                "{OUTDIR}" => "outdir".to_string(),
                "{SCHEMA}" => "schema.yaml".to_string(),
                "{OTHER}" => {
                    let ss = self.seeds_of(t.kind);
                    let o = &ss[(si + 1) % ss.len()];
                    let n = format!("other.{}", o.ext);
                    std::fs::write(rn.cwd.join(&n), &o.bytes).unwrap();
                    other_path = Some(rn.cwd.join(&n));
                    n
                }
                "{OTHERDBC}" => {
                    let o = &self.seeds_of(Kind::Dbc)[0];
                    std::fs::write(rn.cwd.join("other.dbc"), &o.bytes).unwrap();
                    other_path = Some(rn.cwd.join("other.dbc"));
                    "other.dbc".to_string()
                }
                _ => a.clone(),
            })
            .collect();
        // ---- run the tool
        let o = rn.run(&args);
        r.count("processes", 1);
        r.nontrivial = !o.timed_out;
        if o.timed_out {
            r.count("timeouts", 1);
        }
        if o.signal.is_some() {
            r.count("deaths_by_signal", 1);
        }
        if o.code == Some(101) {
            r.count("tool_panics", 1);
        }
        r.outcome = format!("{}/{}/{:?}/{}", t.fam, d.coarse(), t.class, o.class());
        let what = format!("{} on seed {} [{}]", t.label, seed.name, d.name());
        // ---- R1
        // (the legacy ANIM container has neither a magic nor a structure of its own: no byte string
        //  is "garbage with the wrong magic" for it, so that class is not judged for .anim inputs)
        let r1 = if t.kind == Kind::Anim && *d == Damage::Garbage { None } else { d.uniform() };
        if let Some(cls) = r1 {
            r.count("r1_checked", 1);
            if o.ok() {
                r.viol(format!("{} {}: exit 0 on {} input", t.fam, t.sub, cls), format!("{what}: {}", o.brief()));
            }
            return r;
        }
        if !o.ok() {
            if *d == Damage::Valid {
                r.err_return = true;
                r.count("refused_valid_seed", 1);
            } else {
                r.count("rejected_damaged_input", 1);
            }
            return r;
        }
        if *d != Damage::Valid {
            r.count("accepted_damaged_input", 1);
        }
        // from here on: exit 0
        let noop = NOOP_MARKERS.iter().any(|m| o.stdout.contains(m));
        // ---- R2: the library's own parse of the same bytes
        if t.class != Class::Info && t.extra != Extra::RawInput {
            r.count("r2_checked", 1);
            let schema = if t.args.iter().any(|a| a == "{SCHEMA}") { schema_path.as_deref() } else { None };
            // (a damaged schema file is judged by R1 only: the YAML loader is not available in-process)
            let res = if t.kind == Kind::Schema { Ok(()) } else { parse_ok(t.parse_kind, &in_path, t.in_ver, schema) };
            if let Err(e) = res {
                r.viol(format!("{} {}: exit 0 on {} input although the library rejects it", t.fam, t.sub, d.coarse()), format!("{what}: library: {e}; {}", o.brief()));
            }
        }
        // ---- R3: validate
        if t.class == Class::Validate {
            r.count("r3_checked", 1);
            match validation_errors(t.kind, &in_path, t.in_ver) {
                Ok((n, first)) if n > 0 => {
                    r.viol(format!("{} validate: exit 0 although the library-level validation it wraps reports errors", t.fam), format!("{what}: {n} error(s), first: {first}; {}", o.brief()));
                }
                _ => {}
            }
            if o.stdout.lines().any(|l| l.trim_start().starts_with('\u{2717}')) {
                r.viol(format!("{} validate: exit 0 while its own output reports a failure", t.fam), format!("{what}: {}", o.brief()));
            }
        }
        // ---- R4: the output
        if let (Some((okind, _)), false) = (t.out, noop) {
            r.count("r4_checked", 1);
            match std::fs::metadata(&out_path) {
                Err(_) => r.viol(format!("{}: exit 0 on {} input but the output file does not exist", t.label, d.coarse()), format!("{what}: {}", o.brief())),
                Ok(m) if m.len() == 0 && okind != Kind::AnyFile => r.viol(format!("{}: exit 0 on {} input but the output file is empty", t.label, d.coarse()), format!("{what}: {}", o.brief())),
                Ok(_) => {
                    if let Err(e) = parse_ok(okind, &out_path, t.out_ver, None) {
                        r.viol(format!("{}: exit 0 on {} input but the library parser does not accept the output", t.label, d.coarse()), format!("{what}: library: {e}; {}", o.brief()));
                    } else {
                        r.count("outputs_accepted", 1);
                    }
                }
            }
        }
        if noop {
            r.count("declared_noops", 1);
        }
        // ---- R5: archive members
        match t.extra {
            Extra::Extract { skip } => {
                r.count("r5_checked", 1);
                if let Ok(v) = mpq_view(&in_path, true) {
                    let mut unreadable = vec![];
                    let mut missing = vec![];
                    let mut differ = vec![];
                    for (n, dres) in v.names.iter().zip(v.data.iter()) {
                        if !safe_member(n) {
                            continue;
                        }
                        match dres {
                            Err(e) => unreadable.push(format!("{n}: {e}")),
                            Ok(want) => match std::fs::read(outdir.join(n.replace('\\', "/"))) {
                                Err(_) => missing.push(n.clone()),
                                Ok(g) if &g != want => differ.push(n.clone()),
                                Ok(_) => r.count("files_compared", 1),
                            },
                        }
                    }
                    if !skip && !unreadable.is_empty() {
                        r.viol("mpq extract: exit 0 without --skip-errors although listed members cannot be read", format!("{what}: {:?}; {}", unreadable, o.brief()));
                    }
                    if !missing.is_empty() {
                        r.viol("mpq extract: exit 0 but members the library can read are not in the output directory", format!("{what}: {:?}; {}", missing, o.brief()));
                    }
                    if !differ.is_empty() {
                        r.viol("mpq extract: exit 0 but extracted members differ from the library's read_file", format!("{what}: {:?}", differ));
                    }
                }
            }
            Extra::Rebuild if !noop => {
                r.count("r5_checked", 1);
                if let (Ok(src), Ok(dst)) = (mpq_view(&in_path, true), mpq_view(&out_path, false)) {
                    let _ = dst;
                    let mut lost = vec![];
                    let mut skipped = vec![];
                    let mut differ = vec![];
                    for (n, dres) in src.names.iter().zip(src.data.iter()) {
                        if n == "(listfile)" || n == "(attributes)" || n == "(signature)" {
                            continue;
                        }
                        let got = mpq_read(&out_path, n);
                        match (dres, got) {
                            (Ok(want), Ok(g)) => {
                                if &g != want {
                                    differ.push(n.clone())
                                } else {
                                    r.count("files_compared", 1)
                                }
                            }
                            (Ok(_), Err(_)) => lost.push(n.clone()),
                            (Err(e), Err(_)) => skipped.push(format!("{n}: {e}")),
                            (Err(_), Ok(_)) => {}
                        }
                    }
                    if !lost.is_empty() {
                        r.viol("mpq rebuild: exit 0 but members the library reads from the source are missing from the target", format!("{what}: {:?}; {}", lost, o.brief()));
                    }
                    if !skipped.is_empty() {
                        r.viol("mpq rebuild: exit 0 although source members could not be read and were left out", format!("{what}: {:?}; {}", skipped, o.brief()));
                    }
                    if !differ.is_empty() {
                        r.viol("mpq rebuild: exit 0 but members of the target differ from the source", format!("{what}: {:?}", differ));
                    }
                }
            }
            _ => {}
        }
        r
    }
}

// ---------------------------------------------------------------------- stand-alone reproductions

pub fn repro() {
    let scratch = Scratch::new("c20-repro");
    let rn = Runner::new(&scratch.0, 60);
    let seeds = all_seeds(&scratch.0);
    let mpqs = &seeds.iter().find(|(k, _)| *k == Kind::Mpq).unwrap().1;
    let show = |title: &str, args: &[&str]| {
        let a: Vec<String> = args.iter().map(|s| s.to_string()).collect();
        let o = rn.run(&a);
        println!("== {title}\n$ warcraft-rs {}\n{}{}-> exit status {:?}\n", args.join(" "), o.stdout, o.stderr, o.code);
    };
    // F1: validate on an archive with an unreadable member
    let s = mpqs.iter().find(|s| s.name == "mpq_v1_zlib_3").unwrap();
    std::fs::write(rn.cwd.join("damaged.mpq"), apply(&Damage::MemberPayload, s, Kind::Mpq).unwrap()).unwrap();
    show("F1: `mpq validate` reports failure and exits 0", &["mpq", "validate", "damaged.mpq"]);
    println!("library: {:?}\n", validation_errors(Kind::Mpq, &rn.cwd.join("damaged.mpq"), None));
    // F2: rebuild of the same archive leaves the unreadable members out and exits 0
    show("F2: `mpq rebuild` skips unreadable members and exits 0", &["mpq", "rebuild", "damaged.mpq", "rebuilt.mpq"]);
    show("   members of the target", &["mpq", "list", "rebuilt.mpq"]);
    // F3: rebuild of an intact V4 archive made by the library's own builder loses every member
    let s = mpqs.iter().find(|s| s.name == "mpq_v4_zlib_4").unwrap();
    std::fs::write(rn.cwd.join("v4.mpq"), &s.bytes).unwrap();
    show("F3: members of an intact V4 archive", &["mpq", "list", "v4.mpq"]);
    show("F3: `mpq rebuild` of it exits 0 with an archive that holds none of them", &["mpq", "rebuild", "v4.mpq", "v4-rebuilt.mpq"]);
    show("   members of the target", &["mpq", "list", "v4-rebuilt.mpq"]);
    // F4: an empty / garbage / 5-byte file is a valid WMO for info, tree and validate
    std::fs::write(rn.cwd.join("empty.wmo"), b"").unwrap();
    std::fs::write(rn.cwd.join("garbage.wmo"), GARBAGE).unwrap();
    show("F4: `wmo validate` on an empty file", &["wmo", "validate", "empty.wmo"]);
    show("F4: `wmo info` on garbage", &["wmo", "info", "garbage.wmo"]);
    // F5: garbage is a valid (LOD) ADT for info, tree and validate
    std::fs::write(rn.cwd.join("garbage.adt"), GARBAGE.iter().cycle().take(256).cloned().collect::<Vec<u8>>()).unwrap();
    show("F5: `adt validate` on garbage", &["adt", "validate", "garbage.adt"]);
}
