//! Independent reference implementations (written from the published format descriptions;
//! shares no code or constant tables with /repo).
pub mod mpqcrypt;
pub mod lookup3;
pub mod mpqref;
pub mod ptch;
