//! Bob Jenkins' lookup3 hashlittle2, byte-at-a-time formulation (endian-neutral variant of the
//! published reference), written independently of /repo.
#[inline]
fn rot(x: u32, k: u32) -> u32 {
    x.rotate_left(k)
}
fn mix(a: &mut u32, b: &mut u32, c: &mut u32) {
    *a = a.wrapping_sub(*c); *a ^= rot(*c, 4); *c = c.wrapping_add(*b);
    *b = b.wrapping_sub(*a); *b ^= rot(*a, 6); *a = a.wrapping_add(*c);
    *c = c.wrapping_sub(*b); *c ^= rot(*b, 8); *b = b.wrapping_add(*a);
    *a = a.wrapping_sub(*c); *a ^= rot(*c, 16); *c = c.wrapping_add(*b);
    *b = b.wrapping_sub(*a); *b ^= rot(*a, 19); *a = a.wrapping_add(*c);
    *c = c.wrapping_sub(*b); *c ^= rot(*b, 4); *b = b.wrapping_add(*a);
}
fn final_mix(a: &mut u32, b: &mut u32, c: &mut u32) {
    *c ^= *b; *c = c.wrapping_sub(rot(*b, 14));
    *a ^= *c; *a = a.wrapping_sub(rot(*c, 11));
    *b ^= *a; *b = b.wrapping_sub(rot(*a, 25));
    *c ^= *b; *c = c.wrapping_sub(rot(*b, 16));
    *a ^= *c; *a = a.wrapping_sub(rot(*c, 4));
    *b ^= *a; *b = b.wrapping_sub(rot(*a, 14));
    *c ^= *b; *c = c.wrapping_sub(rot(*b, 24));
}

/// returns (pc, pb) given seeds (pc, pb)
pub fn hashlittle2(key: &[u8], pc: u32, pb: u32) -> (u32, u32) {
    let mut a = 0xdead_beefu32.wrapping_add(key.len() as u32).wrapping_add(pc);
    let mut b = a;
    let mut c = a.wrapping_add(pb);
    let mut k = key;
    while k.len() > 12 {
        a = a.wrapping_add(k[0] as u32 | (k[1] as u32) << 8 | (k[2] as u32) << 16 | (k[3] as u32) << 24);
        b = b.wrapping_add(k[4] as u32 | (k[5] as u32) << 8 | (k[6] as u32) << 16 | (k[7] as u32) << 24);
        c = c.wrapping_add(k[8] as u32 | (k[9] as u32) << 8 | (k[10] as u32) << 16 | (k[11] as u32) << 24);
        mix(&mut a, &mut b, &mut c);
        k = &k[12..];
    }
    if k.is_empty() {
        return (c, b);
    }
    // last block: add the remaining bytes little-endian into a, b, c
    for (i, &byte) in k.iter().enumerate() {
        let v = (byte as u32) << (8 * (i % 4));
        match i / 4 {
            0 => a = a.wrapping_add(v),
            1 => b = b.wrapping_add(v),
            _ => c = c.wrapping_add(v),
        }
    }
    final_mix(&mut a, &mut b, &mut c);
    (c, b)
}
