//! MPQ crypt table, name hash and block cipher, from the published algorithm.
use std::sync::OnceLock;

pub fn crypt_table() -> &'static [u32; 1280] {
    static T: OnceLock<[u32; 1280]> = OnceLock::new();
    T.get_or_init(|| {
        let mut t = [0u32; 1280];
        let mut seed: u64 = 0x0010_0001;
        for i in 0..256usize {
            let mut j = i;
            for _ in 0..5 {
                seed = (seed * 125 + 3) % 0x2A_AAAB;
                let hi = (seed & 0xFFFF) << 16;
                seed = (seed * 125 + 3) % 0x2A_AAAB;
                let lo = seed & 0xFFFF;
                t[j] = (hi | lo) as u32;
                j += 256;
            }
        }
        t
    })
}

/// fold one byte the way the MPQ name hash does: ASCII a-z -> A-Z, '/' -> '\\', all else unchanged
#[inline]
pub fn fold_upper(b: u8) -> u8 {
    if b == b'/' {
        b'\\'
    } else if b.is_ascii_lowercase() {
        b - 32
    } else {
        b
    }
}
#[inline]
pub fn fold_lower(b: u8) -> u8 {
    if b == b'/' {
        b'\\'
    } else if b.is_ascii_uppercase() {
        b + 32
    } else {
        b
    }
}

/// hash_type: 0 = table offset, 1 = name A, 2 = name B, 3 = file key
pub fn hash_name(name: &[u8], hash_type: u32) -> u32 {
    let t = crypt_table();
    let mut s1: u32 = 0x7FED_7FED;
    let mut s2: u32 = 0xEEEE_EEEE;
    for &raw in name {
        let c = fold_upper(raw) as u32;
        s1 = t[((hash_type << 8) + c) as usize] ^ s1.wrapping_add(s2);
        s2 = c.wrapping_add(s1).wrapping_add(s2).wrapping_add(s2 << 5).wrapping_add(3);
    }
    s1
}

pub fn encrypt_dwords(data: &mut [u32], mut key: u32) {
    let t = crypt_table();
    let mut seed: u32 = 0xEEEE_EEEE;
    for d in data.iter_mut() {
        seed = seed.wrapping_add(t[0x400 + (key & 0xFF) as usize]);
        let plain = *d;
        *d = plain ^ key.wrapping_add(seed);
        key = ((!key) << 21).wrapping_add(0x1111_1111) | (key >> 11);
        seed = plain.wrapping_add(seed).wrapping_add(seed << 5).wrapping_add(3);
    }
}

pub fn decrypt_dwords(data: &mut [u32], mut key: u32) {
    let t = crypt_table();
    let mut seed: u32 = 0xEEEE_EEEE;
    for d in data.iter_mut() {
        seed = seed.wrapping_add(t[0x400 + (key & 0xFF) as usize]);
        let plain = *d ^ key.wrapping_add(seed);
        *d = plain;
        key = ((!key) << 21).wrapping_add(0x1111_1111) | (key >> 11);
        seed = plain.wrapping_add(seed).wrapping_add(seed << 5).wrapping_add(3);
    }
}

/// byte-level: whole dwords only (the published cipher leaves a trailing partial dword alone)
pub fn decrypt_bytes_whole_dwords(data: &mut [u8], key: u32) {
    let n = data.len() / 4;
    let mut w: Vec<u32> = (0..n).map(|i| u32::from_le_bytes([data[4 * i], data[4 * i + 1], data[4 * i + 2], data[4 * i + 3]])).collect();
    decrypt_dwords(&mut w, key);
    for (i, x) in w.iter().enumerate() {
        data[4 * i..4 * i + 4].copy_from_slice(&x.to_le_bytes());
    }
}
pub fn encrypt_bytes_whole_dwords(data: &mut [u8], key: u32) {
    let n = data.len() / 4;
    let mut w: Vec<u32> = (0..n).map(|i| u32::from_le_bytes([data[4 * i], data[4 * i + 1], data[4 * i + 2], data[4 * i + 3]])).collect();
    encrypt_dwords(&mut w, key);
    for (i, x) in w.iter().enumerate() {
        data[4 * i..4 * i + 4].copy_from_slice(&x.to_le_bytes());
    }
}

/// file key from the plain file name (path stripped), optionally position-adjusted
pub fn file_key(name: &[u8], fix_key: bool, file_pos: u32, file_size: u32) -> u32 {
    let base = match name.iter().rposition(|&b| b == b'\\' || b == b'/') {
        Some(p) => &name[p + 1..],
        None => name,
    };
    let k = hash_name(base, 3);
    if fix_key {
        (k.wrapping_add(file_pos)) ^ file_size
    } else {
        k
    }
}
