//! Independent MPQ reader/writer for the published V1/V2 subset (classic hash/block tables;
//! none/zlib/bzip2; plain, encrypted, position-adjusted keys; single-unit and sectored files).
//! Written from the published format description; shares no code or constants with /repo.
//! Also produces a *layout map* (byte ranges of every structure) for structure-aware faults.

use crate::mpqcrypt::{self, decrypt_dwords, encrypt_dwords, hash_name};
use std::io::{Read, Write};

pub const F_IMPLODE: u32 = 0x0000_0100;
pub const F_COMPRESS: u32 = 0x0000_0200;
pub const F_ENCRYPTED: u32 = 0x0001_0000;
pub const F_FIX_KEY: u32 = 0x0002_0000;
pub const F_PATCH: u32 = 0x0010_0000;
pub const F_SINGLE: u32 = 0x0100_0000;
pub const F_DELETED: u32 = 0x0200_0000;
pub const F_CRC: u32 = 0x0400_0000;
pub const F_EXISTS: u32 = 0x8000_0000;

pub const M_ZLIB: u8 = 0x02;
pub const M_BZIP2: u8 = 0x10;

#[derive(Debug, Clone)]
pub struct Header {
    pub offset: u64, // archive start inside the file (after user data)
    pub header_size: u32,
    pub archive_size: u32,
    pub version: u16,
    pub shift: u16,
    pub hash_pos: u64,
    pub block_pos: u64,
    pub hash_count: u32,
    pub block_count: u32,
    pub hi_block_pos: u64,
}

#[derive(Debug, Clone, Copy, PartialEq, Eq)]
pub struct HashEnt {
    pub a: u32,
    pub b: u32,
    pub locale: u16,
    pub platform: u16,
    pub block: u32,
}
#[derive(Debug, Clone, Copy, PartialEq, Eq)]
pub struct BlockEnt {
    pub pos: u32,
    pub csize: u32,
    pub fsize: u32,
    pub flags: u32,
}

#[derive(Debug, Clone)]
pub struct Span {
    pub kind: String,
    pub start: u64,
    pub end: u64,
    pub note: String,
}

#[derive(Debug)]
pub struct Parsed {
    pub header: Header,
    pub hash: Vec<HashEnt>,
    pub block: Vec<BlockEnt>,
    pub hi_block: Vec<u16>,
    pub data: Vec<u8>,
    pub layout: Vec<Span>,
}

fn u16le(b: &[u8], o: usize) -> u16 {
    u16::from_le_bytes([b[o], b[o + 1]])
}
fn u32le(b: &[u8], o: usize) -> u32 {
    u32::from_le_bytes([b[o], b[o + 1], b[o + 2], b[o + 3]])
}
fn u64le(b: &[u8], o: usize) -> u64 {
    u64::from_le_bytes(b[o..o + 8].try_into().unwrap())
}

fn to_dwords(b: &[u8]) -> Vec<u32> {
    b.chunks_exact(4).map(|c| u32::from_le_bytes([c[0], c[1], c[2], c[3]])).collect()
}
fn from_dwords(w: &[u32]) -> Vec<u8> {
    let mut v = Vec::with_capacity(w.len() * 4);
    for x in w {
        v.extend_from_slice(&x.to_le_bytes());
    }
    v
}

pub fn key_hash_table() -> u32 {
    hash_name(b"(hash table)", 3)
}
pub fn key_block_table() -> u32 {
    hash_name(b"(block table)", 3)
}

/// Strict parse. `Err(String)` describes the first non-conformance.
pub fn parse(data: &[u8]) -> Result<Parsed, String> {
    // locate header on 512-byte boundaries, following a user-data header if present
    let mut off = 0usize;
    let mut layout = vec![];
    loop {
        if off + 32 > data.len() {
            return Err("no MPQ header found".into());
        }
        let magic = &data[off..off + 4];
        if magic == b"MPQ\x1a" {
            break;
        }
        if magic == b"MPQ\x1b" {
            let hdr_off = u32le(data, off + 8) as usize;
            layout.push(Span { kind: "userdata".into(), start: off as u64, end: (off + 16) as u64, note: String::new() });
            off += hdr_off;
            if data.len() < off + 4 || &data[off..off + 4] != b"MPQ\x1a" {
                return Err("user data header does not point at an MPQ header".into());
            }
            break;
        }
        off += 512;
    }
    let h = &data[off..];
    let header_size = u32le(h, 4);
    let archive_size = u32le(h, 8);
    let version = u16le(h, 12);
    let shift = u16le(h, 14);
    let want_hs = match version {
        0 => 32,
        1 => 44,
        2 => 68,
        3 => 208,
        v => return Err(format!("unknown format version {v}")),
    };
    if header_size != want_hs {
        return Err(format!("header size {header_size} does not match version {version} (want {want_hs})"));
    }
    if h.len() < header_size as usize {
        return Err("truncated header".into());
    }
    let mut hash_pos = u32le(h, 16) as u64;
    let mut block_pos = u32le(h, 20) as u64;
    let hash_count = u32le(h, 24);
    let block_count = u32le(h, 28);
    let mut hi_block_pos = 0u64;
    if version >= 1 {
        hi_block_pos = u64le(h, 32);
        hash_pos |= (u16le(h, 40) as u64) << 32;
        block_pos |= (u16le(h, 42) as u64) << 32;
    }
    layout.push(Span { kind: "header".into(), start: off as u64, end: off as u64 + header_size as u64, note: format!("v{version}") });
    let total = data.len() as u64 - off as u64;
    if version == 0 && archive_size as u64 != total {
        return Err(format!("header archive_size {archive_size} != actual archive length {total}"));
    }
    if hash_count == 0 || !hash_count.is_power_of_two() {
        return Err(format!("hash table size {hash_count} is not a power of two"));
    }
    let hb = hash_count as u64 * 16;
    let bb = block_count as u64 * 16;
    if hash_pos < header_size as u64 || hash_pos + hb > total {
        return Err("hash table out of range".into());
    }
    if block_pos < header_size as u64 || block_pos + bb > total {
        return Err("block table out of range".into());
    }
    let hs = off + hash_pos as usize;
    let mut hw = to_dwords(&data[hs..hs + hb as usize]);
    decrypt_dwords(&mut hw, key_hash_table());
    let hash: Vec<HashEnt> = hw
        .chunks_exact(4)
        .map(|c| HashEnt { a: c[0], b: c[1], locale: (c[2] & 0xFFFF) as u16, platform: (c[2] >> 16) as u16, block: c[3] })
        .collect();
    layout.push(Span { kind: "hash_table".into(), start: hs as u64, end: hs as u64 + hb, note: format!("{hash_count} entries") });
    let bs = off + block_pos as usize;
    let mut bw = to_dwords(&data[bs..bs + bb as usize]);
    decrypt_dwords(&mut bw, key_block_table());
    let block: Vec<BlockEnt> = bw.chunks_exact(4).map(|c| BlockEnt { pos: c[0], csize: c[1], fsize: c[2], flags: c[3] }).collect();
    layout.push(Span { kind: "block_table".into(), start: bs as u64, end: bs as u64 + bb, note: format!("{block_count} entries") });
    let mut hi_block = vec![];
    if hi_block_pos != 0 {
        let s = off + hi_block_pos as usize;
        if s + block_count as usize * 2 > data.len() {
            return Err("hi-block table out of range".into());
        }
        for i in 0..block_count as usize {
            hi_block.push(u16le(data, s + 2 * i));
        }
        layout.push(Span { kind: "hi_block_table".into(), start: s as u64, end: (s + block_count as usize * 2) as u64, note: String::new() });
    }
    for (i, e) in hash.iter().enumerate() {
        if e.block < 0xFFFF_FFFE && e.block >= block_count {
            return Err(format!("hash entry {i} refers to block {} beyond table of {block_count}", e.block));
        }
    }
    for (i, b) in block.iter().enumerate() {
        if b.flags & F_EXISTS != 0 {
            let p = b.pos as u64 | (hi_block.get(i).copied().unwrap_or(0) as u64) << 32;
            if p + b.csize as u64 > total {
                return Err(format!("block {i} data out of range"));
            }
        }
    }
    let header = Header { offset: off as u64, header_size, archive_size, version, shift, hash_pos, block_pos, hash_count, block_count, hi_block_pos };
    Ok(Parsed { header, hash, block, hi_block, data: data.to_vec(), layout })
}


fn inflate(method: u8, payload: &[u8], expect: usize) -> Result<Vec<u8>, String> {
    let mut out = Vec::with_capacity(expect);
    match method {
        M_ZLIB => {
            flate2::read::ZlibDecoder::new(payload).read_to_end(&mut out).map_err(|e| format!("zlib: {e}"))?;
        }
        M_BZIP2 => {
            bzip2::read::BzDecoder::new(payload).read_to_end(&mut out).map_err(|e| format!("bzip2: {e}"))?;
        }
        m => return Err(format!("compression method {m:#04x} is outside the published subset handled here")),
    }
    if out.len() != expect {
        return Err(format!("decompressed to {} bytes, expected {}", out.len(), expect));
    }
    Ok(out)
}

#[derive(Debug, Clone, Default)]
pub struct FileTrace {
    pub hash_index: usize,
    pub block_index: usize,
    pub key: u32,
    pub flags: u32,
    pub sector_methods: Vec<Option<u8>>, // per sector: Some(method byte) if compressed, None if raw
}

impl Parsed {
    pub fn sector_size(&self) -> usize {
        512usize << self.header.shift
    }
    /// classic lookup: start slot = hash(name,0) & mask, linear probing, stop at a never-used entry
    pub fn find(&self, name: &[u8]) -> Option<usize> {
        let n = self.hash.len();
        let start = (hash_name(name, 0) as usize) & (n - 1);
        let (a, b) = (hash_name(name, 1), hash_name(name, 2));
        let mut i = start;
        loop {
            let e = &self.hash[i];
            if e.block == 0xFFFF_FFFF {
                return None;
            }
            if e.block != 0xFFFF_FFFE && e.a == a && e.b == b {
                return Some(i);
            }
            i = (i + 1) & (n - 1);
            if i == start {
                return None;
            }
        }
    }
    pub fn read(&self, name: &[u8]) -> Result<(Vec<u8>, FileTrace), String> {
        let hi = self.find(name).ok_or_else(|| "not found".to_string())?;
        let bi = self.hash[hi].block as usize;
        let b = self.block[bi];
        if b.flags & F_EXISTS == 0 {
            return Err("block entry does not exist".into());
        }
        if b.flags & F_PATCH != 0 {
            return Err("patch file".into());
        }
        let pos = b.pos as u64 | (self.hi_block.get(bi).copied().unwrap_or(0) as u64) << 32;
        let start = (self.header.offset + pos) as usize;
        let raw = &self.data[start..start + b.csize as usize];
        let mut tr = FileTrace { hash_index: hi, block_index: bi, flags: b.flags, ..Default::default() };
        let key = if b.flags & F_ENCRYPTED != 0 { mpqcrypt::file_key(name, b.flags & F_FIX_KEY != 0, b.pos, b.fsize) } else { 0 };
        tr.key = key;
        let dec = |buf: &mut Vec<u8>, k: u32| {
            if b.flags & F_ENCRYPTED != 0 {
                mpqcrypt::decrypt_bytes_whole_dwords(buf, k);
            }
        };
        let fsize = b.fsize as usize;
        if b.flags & F_SINGLE != 0 {
            let mut buf = raw.to_vec();
            dec(&mut buf, key);
            if b.flags & F_COMPRESS != 0 && (b.csize as usize) < fsize {
                tr.sector_methods.push(Some(buf[0]));
                return Ok((inflate(buf[0], &buf[1..], fsize)?, tr));
            }
            if buf.len() < fsize {
                return Err("stored single unit shorter than file size".into());
            }
            tr.sector_methods.push(None);
            buf.truncate(fsize);
            return Ok((buf, tr));
        }
        let ss = self.sector_size();
        let n = fsize.div_ceil(ss);
        let mut out = Vec::with_capacity(fsize);
        if b.flags & (F_COMPRESS | F_IMPLODE) == 0 {
            // raw sectors back to back, each encrypted with key + index
            if raw.len() < fsize {
                return Err("stored data shorter than file size".into());
            }
            for i in 0..n {
                let s = i * ss;
                let e = ((i + 1) * ss).min(fsize);
                let mut buf = raw[s..e].to_vec();
                dec(&mut buf, key.wrapping_add(i as u32));
                out.extend_from_slice(&buf);
                tr.sector_methods.push(None);
            }
            return Ok((out, tr));
        }
        if b.flags & F_IMPLODE != 0 {
            return Err("imploded file is outside the subset handled here".into());
        }
        let entries = n + 1 + if b.flags & F_CRC != 0 { 1 } else { 0 };
        if raw.len() < entries * 4 {
            return Err("sector offset table does not fit".into());
        }
        let mut tw = to_dwords(&raw[..entries * 4]);
        if b.flags & F_ENCRYPTED != 0 {
            decrypt_dwords(&mut tw, key.wrapping_sub(1));
        }
        if tw[0] as usize != entries * 4 {
            return Err(format!("first sector offset {} != table size {}", tw[0], entries * 4));
        }
        // checksum sector (published layout): tw[n]..tw[n+1], never encrypted, raw or compressed
        let mut sums: Option<Vec<u32>> = None;
        if b.flags & F_CRC != 0 {
            let (s, e) = (tw[n] as usize, tw[n + 1] as usize);
            if e < s || e > raw.len() || e - s > 4 * n {
                return Err(format!("checksum sector {s}..{e} does not fit {n} sectors"));
            }
            if e > s {
                let stored = &raw[s..e];
                let plain = if stored.len() < 4 * n { inflate(stored[0], &stored[1..], 4 * n)? } else { stored.to_vec() };
                sums = Some(to_dwords(&plain));
            }
        }
        for i in 0..n {
            let (s, e) = (tw[i] as usize, tw[i + 1] as usize);
            if e < s || e > raw.len() {
                return Err(format!("sector {i} offsets {s}..{e} not monotone / out of range"));
            }
            let expect = ss.min(fsize - i * ss);
            let mut buf = raw[s..e].to_vec();
            dec(&mut buf, key.wrapping_add(i as u32));
            if let Some(sm) = &sums {
                if sm[i] != 0 && sm[i] != 0xFFFF_FFFF && sm[i] != adler32(&buf) {
                    return Err(format!("sector {i}: stored checksum {:#010x} != ADLER32 of the stored sector {:#010x}", sm[i], adler32(&buf)));
                }
            }
            if buf.len() < expect {
                tr.sector_methods.push(Some(buf[0]));
                out.extend_from_slice(&inflate(buf[0], &buf[1..], expect)?);
            } else if buf.len() == expect {
                tr.sector_methods.push(None);
                out.extend_from_slice(&buf);
            } else {
                return Err(format!("sector {i} stored size {} exceeds its plain size {expect}", buf.len()));
            }
        }
        Ok((out, tr))
    }
    pub fn listfile(&self) -> Option<Vec<String>> {
        let (d, _) = self.read(b"(listfile)").ok()?;
        let s = String::from_utf8_lossy(&d).to_string();
        Some(s.split(['\r', '\n', ';']).filter(|l| !l.is_empty()).map(|l| l.to_string()).collect())
    }
}

// ------------------------------------------------------------------ writer

#[derive(Clone, Debug)]
pub struct WFile {
    pub name: Vec<u8>,
    pub data: Vec<u8>,
    pub method: u8, // 0 none, M_ZLIB, M_BZIP2
    pub encrypt: bool,
    pub fix_key: bool,
    pub single_unit: bool,
    /// extra raw flags OR-ed into the block entry (e.g. F_PATCH); data is then stored verbatim
    pub raw_flags: u32,
    pub in_listfile: bool,
}
impl WFile {
    pub fn plain(name: &str, data: &[u8]) -> WFile {
        WFile { name: name.as_bytes().to_vec(), data: data.to_vec(), method: 0, encrypt: false, fix_key: false, single_unit: false, raw_flags: 0, in_listfile: true }
    }
}

#[derive(Clone, Debug)]
pub struct WOptions {
    pub version: u16, // 0 or 1
    pub shift: u16,
    pub hash_size: u32, // power of two
    pub listfile: bool,
    pub userdata_prefix: usize, // 0 = none; else bytes of user data area (multiple of 512)
    pub deleted_slots: Vec<u32>, // hash slots to pre-mark as deleted (0xFFFFFFFE)
    pub reuse_deleted: bool,     // insertion may take a deleted slot (true) or walks past it like past an occupied one
}
impl Default for WOptions {
    fn default() -> Self {
        WOptions { version: 0, shift: 3, hash_size: 16, listfile: true, userdata_prefix: 0, deleted_slots: vec![], reuse_deleted: true }
    }
}

fn deflate(method: u8, d: &[u8]) -> Vec<u8> {
    match method {
        M_ZLIB => {
            let mut e = flate2::write::ZlibEncoder::new(Vec::new(), flate2::Compression::new(6));
            e.write_all(d).unwrap();
            e.finish().unwrap()
        }
        M_BZIP2 => {
            let mut e = bzip2::write::BzEncoder::new(Vec::new(), bzip2::Compression::new(6));
            e.write_all(d).unwrap();
            e.finish().unwrap()
        }
        _ => d.to_vec(),
    }
}

/// Extensions of the writer that most callers do not need.
#[derive(Clone, Debug, Default)]
pub struct WExt {
    /// compressed multi-sector files carry sector checksums in the published layout: one more entry in the
    /// sector offset table and a final, unencrypted sector of ADLER32 values (of each sector as stored)
    pub sector_crc: bool,
    /// store that checksum sector zlib-compressed (method byte + stream) when that is shorter
    pub crc_sector_compressed: bool,
}

/// ADLER32 (RFC 1950), written out here so that the reference shares nothing with the library
pub fn adler32(d: &[u8]) -> u32 {
    let (mut a, mut b) = (1u32, 0u32);
    for &x in d {
        a = (a + x as u32) % 65521;
        b = (b + a) % 65521;
    }
    (b << 16) | a
}

/// Write a conformant archive. Returns the bytes.
pub fn write(files: &[WFile], opt: &WOptions) -> Result<Vec<u8>, String> {
    write_with(files, opt, &WExt::default())
}

pub fn write_with(files: &[WFile], opt: &WOptions, ext: &WExt) -> Result<Vec<u8>, String> {
    let header_size: u32 = if opt.version == 0 { 32 } else { 44 };
    let ss = 512usize << opt.shift;
    let mut files: Vec<WFile> = files.to_vec();
    if opt.listfile {
        let mut l = Vec::new();
        for f in &files {
            if f.in_listfile {
                l.extend_from_slice(&f.name);
                l.extend_from_slice(b"\r\n");
            }
        }
        files.push(WFile { name: b"(listfile)".to_vec(), data: l, method: M_ZLIB, encrypt: false, fix_key: false, single_unit: false, raw_flags: 0, in_listfile: false });
    }
    let mut body: Vec<u8> = vec![]; // everything after the header
    let mut blocks: Vec<BlockEnt> = vec![];
    for f in &files {
        let pos = header_size as usize + body.len();
        let fsize = f.data.len();
        let mut flags = F_EXISTS | f.raw_flags;
        if f.raw_flags & F_PATCH != 0 {
            body.extend_from_slice(&f.data);
            // patch entries: caller supplies stored bytes; file size field = stored size unless overridden later
            blocks.push(BlockEnt { pos: pos as u32, csize: fsize as u32, fsize: fsize as u32, flags });
            continue;
        }
        if f.encrypt {
            flags |= F_ENCRYPTED;
            if f.fix_key {
                flags |= F_FIX_KEY;
            }
        }
        let key = if f.encrypt { mpqcrypt::file_key(&f.name, f.fix_key, pos as u32, fsize as u32) } else { 0 };
        let enc = |buf: &mut Vec<u8>, k: u32| {
            if f.encrypt {
                mpqcrypt::encrypt_bytes_whole_dwords(buf, k);
            }
        };
        let mut stored: Vec<u8> = vec![];
        if f.single_unit || fsize == 0 {
            if f.single_unit {
                flags |= F_SINGLE;
            }
            let mut buf = f.data.clone();
            if f.method != 0 && fsize > 0 {
                let c = deflate(f.method, &f.data);
                if c.len() + 1 < fsize {
                    buf = vec![f.method];
                    buf.extend_from_slice(&c);
                    flags |= F_COMPRESS;
                }
            }
            if f.single_unit {
                enc(&mut buf, key);
            }
            stored = buf;
        } else if f.method == 0 {
            for (i, sec) in f.data.chunks(ss).enumerate() {
                let mut buf = sec.to_vec();
                enc(&mut buf, key.wrapping_add(i as u32));
                stored.extend_from_slice(&buf);
            }
        } else {
            flags |= F_COMPRESS;
            let n = fsize.div_ceil(ss);
            let crc = ext.sector_crc && f.name != b"(listfile)";
            if crc {
                flags |= F_CRC;
            }
            let table = (n + 1 + crc as usize) * 4;
            let mut offs: Vec<u32> = vec![table as u32];
            let mut payload: Vec<u8> = vec![];
            let mut sums: Vec<u8> = vec![];
            for (i, sec) in f.data.chunks(ss).enumerate() {
                let c = deflate(f.method, sec);
                let mut buf = if c.len() + 1 < sec.len() {
                    let mut b = vec![f.method];
                    b.extend_from_slice(&c);
                    b
                } else {
                    sec.to_vec()
                };
                sums.extend_from_slice(&adler32(&buf).to_le_bytes());
                enc(&mut buf, key.wrapping_add(i as u32));
                payload.extend_from_slice(&buf);
                offs.push((table + payload.len()) as u32);
            }
            if crc {
                if ext.crc_sector_compressed {
                    let c = deflate(M_ZLIB, &sums);
                    if c.len() + 1 < sums.len() {
                        sums = [vec![M_ZLIB], c].concat();
                    }
                }
                payload.extend_from_slice(&sums);
                offs.push((table + payload.len()) as u32);
            }
            if f.encrypt {
                encrypt_dwords(&mut offs, key.wrapping_sub(1));
            }
            stored = from_dwords(&offs);
            stored.extend_from_slice(&payload);
        }
        blocks.push(BlockEnt { pos: pos as u32, csize: stored.len() as u32, fsize: fsize as u32, flags });
        body.extend_from_slice(&stored);
    }
    // hash table
    let hn = opt.hash_size as usize;
    if !hn.is_power_of_two() {
        return Err("hash size".into());
    }
    let empty = HashEnt { a: 0xFFFF_FFFF, b: 0xFFFF_FFFF, locale: 0xFFFF, platform: 0xFFFF, block: 0xFFFF_FFFF };
    let mut hash = vec![empty; hn];
    for &s in &opt.deleted_slots {
        hash[s as usize % hn].block = 0xFFFF_FFFE;
    }
    for (bi, f) in files.iter().enumerate() {
        let start = hash_name(&f.name, 0) as usize & (hn - 1);
        let mut i = start;
        loop {
            if hash[i].block == 0xFFFF_FFFF || (opt.reuse_deleted && hash[i].block == 0xFFFF_FFFE) {
                // deleted markers may be reused only if doing so cannot shadow a later duplicate; here names are unique
                hash[i] = HashEnt { a: hash_name(&f.name, 1), b: hash_name(&f.name, 2), locale: 0, platform: 0, block: bi as u32 };
                break;
            }
            i = (i + 1) & (hn - 1);
            if i == start {
                return Err("hash table full".into());
            }
        }
    }
    let hash_pos = header_size as usize + body.len();
    let mut hw: Vec<u32> = vec![];
    for e in &hash {
        hw.extend_from_slice(&[e.a, e.b, e.locale as u32 | (e.platform as u32) << 16, e.block]);
    }
    encrypt_dwords(&mut hw, key_hash_table());
    let block_pos = hash_pos + hw.len() * 4;
    let mut bw: Vec<u32> = vec![];
    for b in &blocks {
        bw.extend_from_slice(&[b.pos, b.csize, b.fsize, b.flags]);
    }
    encrypt_dwords(&mut bw, key_block_table());
    let archive_size = block_pos + bw.len() * 4;
    let mut out: Vec<u8> = vec![];
    if opt.userdata_prefix > 0 {
        let n = opt.userdata_prefix.div_ceil(512) * 512;
        out.extend_from_slice(b"MPQ\x1b");
        out.extend_from_slice(&((n - 16) as u32).to_le_bytes()); // user data size
        out.extend_from_slice(&(n as u32).to_le_bytes()); // offset of the MPQ header
        out.extend_from_slice(&16u32.to_le_bytes()); // user data header size
        out.resize(n, 0x55);
    }
    out.extend_from_slice(b"MPQ\x1a");
    out.extend_from_slice(&header_size.to_le_bytes());
    out.extend_from_slice(&(archive_size as u32).to_le_bytes());
    out.extend_from_slice(&opt.version.to_le_bytes());
    out.extend_from_slice(&opt.shift.to_le_bytes());
    out.extend_from_slice(&(hash_pos as u32).to_le_bytes());
    out.extend_from_slice(&(block_pos as u32).to_le_bytes());
    out.extend_from_slice(&(hn as u32).to_le_bytes());
    out.extend_from_slice(&(blocks.len() as u32).to_le_bytes());
    if opt.version >= 1 {
        out.extend_from_slice(&0u64.to_le_bytes()); // no hi-block table
        out.extend_from_slice(&0u16.to_le_bytes());
        out.extend_from_slice(&0u16.to_le_bytes());
    }
    out.extend_from_slice(&body);
    out.extend_from_slice(&from_dwords(&hw));
    out.extend_from_slice(&from_dwords(&bw));
    Ok(out)
}
