//! Independent PTCH (incremental patch) encoder and reference applier, written from the published
//! description of Blizzard's patch files: PTCH/MD5_/XFRM blocks, COPY and BSD0 (bsdiff40 with
//! 32-bit control triples, RLE-wrapped) payloads, and the TPatchInfo prefix of patch entries.
use md5::{Digest, Md5};

pub fn md5(d: &[u8]) -> [u8; 16] {
    let mut h = Md5::new();
    h.update(d);
    h.finalize().into()
}

/// RLE wrapper used for BSD0 payloads: 4-byte size, then literal runs (0x80|n-1, n bytes) and
/// zero runs (n-1 => n zero bytes).  This encoder emits zero runs for >= 2 zeros.
pub fn rle_encode(d: &[u8]) -> Vec<u8> {
    let mut out = (d.len() as u32).to_le_bytes().to_vec();
    let mut i = 0;
    while i < d.len() {
        // zero run?
        let mut z = 0;
        while i + z < d.len() && d[i + z] == 0 && z < 128 {
            z += 1;
        }
        if z >= 2 {
            out.push((z - 1) as u8);
            i += z;
            continue;
        }
        // literal run up to 128 bytes, stopping before a run of >= 2 zeros
        let start = i;
        while i < d.len() && i - start < 128 {
            if d[i] == 0 && i + 1 < d.len() && d[i + 1] == 0 {
                break;
            }
            i += 1;
        }
        out.push(0x80 | (i - start - 1) as u8);
        out.extend_from_slice(&d[start..i]);
    }
    out
}

#[derive(Clone, Debug)]
pub struct Ctrl {
    pub add: u32,
    pub mov: u32,
    pub seek: u32, // sign-magnitude: 0x80000000 | n means -n
}

/// bsdiff40 body (unwrapped): header + control triples + data block + extra block
pub fn bsdiff_body(ctrl: &[Ctrl], data: &[u8], extra: &[u8], new_size: u64) -> Vec<u8> {
    let mut o = b"BSDIFF40".to_vec();
    o.extend_from_slice(&((ctrl.len() * 12) as u64).to_le_bytes());
    o.extend_from_slice(&(data.len() as u64).to_le_bytes());
    o.extend_from_slice(&new_size.to_le_bytes());
    for c in ctrl {
        o.extend_from_slice(&c.add.to_le_bytes());
        o.extend_from_slice(&c.mov.to_le_bytes());
        o.extend_from_slice(&c.seek.to_le_bytes());
    }
    o.extend_from_slice(data);
    o.extend_from_slice(extra);
    o
}

/// Reference application of a control program. None if the program is ill-formed for this base.
pub fn bsdiff_apply(base: &[u8], ctrl: &[Ctrl], data: &[u8], extra: &[u8], new_size: usize) -> Option<Vec<u8>> {
    let mut out = vec![0u8; new_size];
    let (mut np, mut op, mut dp, mut ep) = (0usize, 0i64, 0usize, 0usize);
    for c in ctrl {
        let (add, mov) = (c.add as usize, c.mov as usize);
        if np + add > new_size || dp + add > data.len() {
            return None;
        }
        for j in 0..add {
            let b = if op + (j as i64) >= 0 && ((op + j as i64) as usize) < base.len() { base[(op + j as i64) as usize] } else { 0 };
            out[np + j] = data[dp + j].wrapping_add(b);
        }
        np += add;
        dp += add;
        op += add as i64;
        if np + mov > new_size || ep + mov > extra.len() {
            return None;
        }
        out[np..np + mov].copy_from_slice(&extra[ep..ep + mov]);
        np += mov;
        ep += mov;
        if c.seek & 0x8000_0000 != 0 {
            op -= (c.seek & 0x7FFF_FFFF) as i64;
        } else {
            op += c.seek as i64;
        }
        if op < 0 {
            return None; // programs that seek before the start are not well-formed
        }
    }
    if np != new_size {
        return None;
    }
    Some(out)
}

/// A full PTCH file. `payload` is the XFRM data (COPY: new bytes; BSD0: RLE-wrapped bsdiff body).
pub fn ptch_file(kind: &[u8; 4], patch_data_size: u32, size_before: u32, size_after: u32, md5_before: [u8; 16], md5_after: [u8; 16], payload: &[u8]) -> Vec<u8> {
    let mut o = b"PTCH".to_vec();
    o.extend_from_slice(&patch_data_size.to_le_bytes());
    o.extend_from_slice(&size_before.to_le_bytes());
    o.extend_from_slice(&size_after.to_le_bytes());
    o.extend_from_slice(b"MD5_");
    o.extend_from_slice(&40u32.to_le_bytes());
    o.extend_from_slice(&md5_before);
    o.extend_from_slice(&md5_after);
    o.extend_from_slice(b"XFRM");
    o.extend_from_slice(&((12 + payload.len()) as u32).to_le_bytes());
    o.extend_from_slice(kind);
    o.extend_from_slice(payload);
    o
}

pub fn copy_patch(base: &[u8], new: &[u8]) -> Vec<u8> {
    ptch_file(b"COPY", new.len() as u32, base.len() as u32, new.len() as u32, md5(base), md5(new), new)
}

pub fn bsd0_patch(base: &[u8], new: &[u8], ctrl: &[Ctrl], data: &[u8], extra: &[u8]) -> Vec<u8> {
    let body = bsdiff_body(ctrl, data, extra, new.len() as u64);
    let wrapped = rle_encode(&body);
    ptch_file(b"BSD0", body.len() as u32, base.len() as u32, new.len() as u32, md5(base), md5(new), &wrapped)
}

/// Stored form of a patch entry inside an archive: TPatchInfo (28 bytes) + the PTCH file.
pub fn patch_entry(ptch: &[u8]) -> Vec<u8> {
    let mut o = 28u32.to_le_bytes().to_vec();
    o.extend_from_slice(&0u32.to_le_bytes()); // flags
    o.extend_from_slice(&(ptch.len() as u32).to_le_bytes());
    o.extend_from_slice(&md5(ptch));
    o.extend_from_slice(ptch);
    o
}
