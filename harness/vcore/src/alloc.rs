//! Counting allocator used for the "no memory out of proportion" monitors (C05, C08 patch part).
//! The binary declares `#[global_allocator] static A: vcore::alloc::Counting = vcore::alloc::Counting;`.
use std::alloc::{GlobalAlloc, Layout, System};
use std::sync::atomic::{AtomicUsize, Ordering};

pub struct Counting;

pub static LIVE: AtomicUsize = AtomicUsize::new(0);
pub static PEAK: AtomicUsize = AtomicUsize::new(0);
pub static LARGEST: AtomicUsize = AtomicUsize::new(0);
/// requests above this are refused (null) so the OS is never asked for them
pub static HARD_CAP: AtomicUsize = AtomicUsize::new(8usize << 30);
pub static REFUSED: AtomicUsize = AtomicUsize::new(0);

#[inline]
fn note(size: usize) {
    let live = LIVE.fetch_add(size, Ordering::Relaxed) + size;
    PEAK.fetch_max(live, Ordering::Relaxed);
    LARGEST.fetch_max(size, Ordering::Relaxed);
}

unsafe impl GlobalAlloc for Counting {
    unsafe fn alloc(&self, l: Layout) -> *mut u8 {
        if l.size() > HARD_CAP.load(Ordering::Relaxed) {
            REFUSED.fetch_max(l.size(), Ordering::Relaxed);
            LARGEST.fetch_max(l.size(), Ordering::Relaxed);
            return std::ptr::null_mut();
        }
        let p = System.alloc(l);
        if !p.is_null() {
            note(l.size());
        }
        p
    }
    unsafe fn alloc_zeroed(&self, l: Layout) -> *mut u8 {
        if l.size() > HARD_CAP.load(Ordering::Relaxed) {
            REFUSED.fetch_max(l.size(), Ordering::Relaxed);
            LARGEST.fetch_max(l.size(), Ordering::Relaxed);
            return std::ptr::null_mut();
        }
        let p = System.alloc_zeroed(l);
        if !p.is_null() {
            note(l.size());
        }
        p
    }
    unsafe fn dealloc(&self, p: *mut u8, l: Layout) {
        LIVE.fetch_sub(l.size(), Ordering::Relaxed);
        System.dealloc(p, l)
    }
    unsafe fn realloc(&self, p: *mut u8, l: Layout, new: usize) -> *mut u8 {
        if new > HARD_CAP.load(Ordering::Relaxed) {
            REFUSED.fetch_max(new, Ordering::Relaxed);
            LARGEST.fetch_max(new, Ordering::Relaxed);
            return std::ptr::null_mut();
        }
        let q = System.realloc(p, l, new);
        if !q.is_null() {
            LIVE.fetch_sub(l.size(), Ordering::Relaxed);
            note(new);
        }
        q
    }
}

/// reset the per-case meters; returns live bytes at reset (baseline)
pub fn reset() -> usize {
    let live = LIVE.load(Ordering::Relaxed);
    PEAK.store(live, Ordering::Relaxed);
    LARGEST.store(0, Ordering::Relaxed);
    REFUSED.store(0, Ordering::Relaxed);
    live
}
/// (peak live above baseline, largest single request)
pub fn read(baseline: usize) -> (usize, usize) {
    (PEAK.load(Ordering::Relaxed).saturating_sub(baseline), LARGEST.load(Ordering::Relaxed))
}
