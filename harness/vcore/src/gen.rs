//! Deterministic generators shared by the checks: mixed-radix decoding, content textures.

/// Decode `i` into digits for the given radices (first axis varies fastest).
pub fn mixed_radix(mut i: u64, radices: &[u64]) -> Vec<u64> {
    let mut out = Vec::with_capacity(radices.len());
    for r in radices {
        out.push(i % r);
        i /= r;
    }
    out
}
pub fn product(radices: &[u64]) -> u64 {
    radices.iter().product()
}

pub struct XorShift(pub u64);
impl XorShift {
    pub fn next(&mut self) -> u64 {
        let mut x = self.0;
        x ^= x << 13;
        x ^= x >> 7;
        x ^= x << 17;
        self.0 = x;
        x
    }
}

pub const TEXTURES: [&str; 6] = ["constant", "period2", "period251", "sparse", "incompressible", "half"];

/// Content of `len` bytes with the given texture. `sector` is used by "half" (even sectors compressible).
pub fn content(texture: &str, len: usize, sector: usize, salt: u64) -> Vec<u8> {
    let mut v = Vec::with_capacity(len);
    match texture {
        "constant" => v.resize(len, 0x41 + (salt % 7) as u8),
        "period2" => {
            for i in 0..len {
                v.push(if i % 2 == 0 { 0xAB } else { 0x10 + (salt % 5) as u8 });
            }
        }
        "period251" => {
            for i in 0..len {
                v.push(((i % 251) as u8).wrapping_add(salt as u8));
            }
        }
        "sparse" => {
            // long zero runs with literal islands; run lengths straddle 0x80/0x81
            let runs = [3usize, 127, 128, 129, 130, 1, 255, 256, 257, 5];
            let mut r = 0;
            while v.len() < len {
                let n = runs[r % runs.len()];
                for _ in 0..n {
                    if v.len() < len {
                        v.push(0);
                    }
                }
                for k in 0..(1 + r % 4) {
                    if v.len() < len {
                        v.push(0x80 + ((r * 7 + k) as u8 & 0x7F) | 1);
                    }
                }
                r += 1;
            }
        }
        "incompressible" => {
            let mut x = XorShift(0x9E3779B97F4A7C15 ^ salt.wrapping_mul(0x2545F4914F6CDD1D) | 1);
            while v.len() < len {
                let w = x.next().to_le_bytes();
                for b in w {
                    if v.len() < len {
                        v.push(b);
                    }
                }
            }
        }
        "half" => {
            let mut x = XorShift(0xD1B54A32D192ED03 ^ salt | 1);
            let s = sector.max(1);
            for i in 0..len {
                if (i / s) % 2 == 0 {
                    v.push(0x33);
                } else {
                    v.push((x.next() >> 24) as u8);
                }
            }
        }
        _ => panic!("texture {texture}"),
    }
    v
}

/// boundary lengths around a sector size
pub fn length_ladder(s: usize, big: bool) -> Vec<usize> {
    let mut v = vec![0, 1, 2, 3, 4, 5, s - 1, s, s + 1];
    if big {
        v.extend([2 * s, 2 * s + 1, 5 * s + 3]);
    }
    v.sort();
    v.dedup();
    v
}
