//! vcore — shared engine for the /verif checks (DESIGN.md §1, §2 E1/E2).
//!
//! A check is a binary that defines one or more finite *spaces* (`Space`): case `i` is a pure
//! function of `i`.  `Check::run_space` enumerates the whole space on worker subprocesses
//! (crash/hang attribution, restart after a death), aggregates what was covered, matches
//! violations against /verif/known_findings.json, replays unknown violations twice for
//! determinism, writes replay files and the evidence file, and produces the exit status
//! (0 held / 1 VIOLATION / 2 machinery failure).

use serde_json::{json, Map, Value};
use std::collections::{BTreeMap, HashSet};
use std::io::{BufRead, BufReader, Write};
use std::process::{Command, Stdio};
use std::sync::atomic::{AtomicU64, AtomicUsize, Ordering};
use std::sync::{Arc, Mutex};
use std::time::{Duration, Instant};

pub mod alloc;
pub mod gen;

pub const VERIF_ROOT: &str = "/verif";

#[derive(Clone, Debug)]
pub struct Viol {
    /// stable class of the failure (used for known-finding matching and grouping)
    pub symptom: String,
    /// specifics (not used for matching)
    pub detail: String,
}

#[derive(Clone, Debug, Default)]
pub struct CaseResult {
    pub nontrivial: bool,
    /// distinctness key of the case among non-trivial ones (empty = use the index)
    pub key: String,
    /// observation class (for distinct_outcomes)
    pub outcome: String,
    /// the subject legitimately refused (Err where the property allows it)
    pub err_return: bool,
    pub viols: Vec<Viol>,
    /// additive counters (e.g. transitions, sub-evaluations)
    pub counters: Vec<(String, u64)>,
    /// free-form payload handed back to the supervisor (e.g. successor states of a BFS)
    pub payload: Option<Value>,
}

impl CaseResult {
    pub fn new() -> Self {
        Self::default()
    }
    pub fn viol(&mut self, symptom: impl Into<String>, detail: impl Into<String>) {
        self.viols.push(Viol { symptom: symptom.into(), detail: detail.into() });
    }
    pub fn count(&mut self, k: &str, n: u64) {
        for c in self.counters.iter_mut() {
            if c.0 == k {
                c.1 += n;
                return;
            }
        }
        self.counters.push((k.to_string(), n));
    }
}

pub trait Space: Sync {
    fn len(&self) -> u64;
    fn describe(&self, i: u64) -> Value;
    fn run(&self, i: u64) -> CaseResult;
    /// seconds a single case may take before the watchdog declares a hang
    fn case_timeout(&self) -> u64 {
        60
    }
}

pub type SpaceBuilder = fn(name: &str, arg: &str, tier: Tier) -> Box<dyn Space>;

#[derive(Clone, Copy, PartialEq, Eq, Debug)]
pub enum Tier {
    Quick,
    Thorough,
}
impl Tier {
    pub fn as_str(&self) -> &'static str {
        match self {
            Tier::Quick => "quick",
            Tier::Thorough => "thorough",
        }
    }
    pub fn pick<T>(&self, q: T, t: T) -> T {
        match self {
            Tier::Quick => q,
            Tier::Thorough => t,
        }
    }
}

// ---------------------------------------------------------------- panic capture

thread_local! {
    static LAST_PANIC: std::cell::RefCell<Option<String>> = const { std::cell::RefCell::new(None) };
}

pub fn install_panic_hook() {
    std::panic::set_hook(Box::new(|info| {
        let msg = if let Some(s) = info.payload().downcast_ref::<&str>() {
            s.to_string()
        } else if let Some(s) = info.payload().downcast_ref::<String>() {
            s.clone()
        } else {
            "<non-string panic>".to_string()
        };
        let loc = info
            .location()
            .map(|l| {
                let f = l.file();
                // strip to repo-relative, drop line numbers (stable across unrelated edits)
                let f = f.strip_prefix("/repo/").unwrap_or(f);
                // third-party crates: keep "<crate>-<ver>/src/..." only
                let f = match f.find("/registry/src/") {
                    Some(p) => {
                        let rest = &f[p + "/registry/src/".len()..];
                        rest.split_once('/').map(|x| x.1).unwrap_or(rest)
                    }
                    None => f,
                };
                f.to_string()
            })
            .unwrap_or_default();
        let line = info.location().map(|l| l.line()).unwrap_or(0);
        if std::env::var_os("VERIF_PANIC_STDERR").is_some() {
            eprintln!("panic at {loc}:{line}: {msg}");
        }
        LAST_PANIC.with(|p| *p.borrow_mut() = Some(format!("{}\u{1}{}\u{1}{}", loc, line, msg)));
    }));
}

/// Run `f`, turning a panic into `Err((file, line, message))`.
pub fn guarded<T>(f: impl FnOnce() -> T) -> Result<T, (String, u32, String)> {
    LAST_PANIC.with(|p| *p.borrow_mut() = None);
    match std::panic::catch_unwind(std::panic::AssertUnwindSafe(f)) {
        Ok(v) => Ok(v),
        Err(_) => {
            let s = LAST_PANIC.with(|p| p.borrow_mut().take()).unwrap_or_default();
            let mut it = s.split('\u{1}');
            let file = it.next().unwrap_or("").to_string();
            let line = it.next().unwrap_or("0").parse().unwrap_or(0);
            let msg = it.next().unwrap_or("").to_string();
            Err((file, line, msg))
        }
    }
}

/// Normalise a panic message into a class: digits collapsed so that values do not split classes.
pub fn panic_class(file: &str, msg: &str) -> String {
    let mut out = String::new();
    let mut last_digit = false;
    for c in msg.chars().take(160) {
        if c.is_ascii_digit() {
            if !last_digit {
                out.push('N');
            }
            last_digit = true;
        } else {
            out.push(c);
            last_digit = false;
        }
    }
    format!("panic at {}: {}", file, out)
}

pub fn guard_case(res: &mut CaseResult, what: &str, f: impl FnOnce(&mut CaseResult)) {
    let mut tmp = CaseResult::new();
    let r = guarded(|| f(&mut tmp));
    res.viols.append(&mut tmp.viols);
    for (k, n) in tmp.counters {
        res.count(&k, n);
    }
    if tmp.nontrivial {
        res.nontrivial = true;
    }
    if tmp.err_return {
        res.err_return = true;
    }
    if !tmp.key.is_empty() {
        res.key = tmp.key;
    }
    if !tmp.outcome.is_empty() {
        res.outcome.push_str(&tmp.outcome);
    }
    if tmp.payload.is_some() {
        res.payload = tmp.payload;
    }
    if let Err((file, line, msg)) = r {
        res.viol(panic_class(&file, &msg), format!("{}: panic at {}:{}: {}", what, file, line, msg));
    }
}

// ---------------------------------------------------------------- known findings

#[derive(Clone, Debug)]
pub struct Known {
    pub id: String,
    pub what: String,
    pub case_re: Option<regex::Regex>,
    pub symptom_re: regex::Regex,
}

pub fn load_known(property: &str) -> Vec<Known> {
    let path = format!("{}/known_findings.json", VERIF_ROOT);
    let Ok(txt) = std::fs::read_to_string(&path) else { return vec![] };
    let v: Value = match serde_json::from_str(&txt) {
        Ok(v) => v,
        Err(e) => {
            eprintln!("machinery: known_findings.json does not parse: {e}");
            std::process::exit(2);
        }
    };
    let mut out = vec![];
    for f in v["findings"].as_array().cloned().unwrap_or_default() {
        if f["property"].as_str() != Some(property) {
            continue;
        }
        let sym = f["symptom_regex"].as_str().unwrap_or("^$");
        out.push(Known {
            id: f["id"].as_str().unwrap_or("").to_string(),
            what: f["what"].as_str().unwrap_or("").to_string(),
            case_re: f["case_regex"].as_str().map(|s| regex::Regex::new(s).expect("case_regex")),
            symptom_re: regex::Regex::new(sym).expect("symptom_regex"),
        });
    }
    out
}

pub fn match_known(known: &[Known], case_desc: &str, symptom: &str) -> Option<usize> {
    known.iter().position(|k| {
        k.symptom_re.is_match(symptom) && k.case_re.as_ref().map(|r| r.is_match(case_desc)).unwrap_or(true)
    })
}

// ---------------------------------------------------------------- aggregation

#[derive(Default, Debug, Clone)]
pub struct FoundViol {
    pub space: String,
    pub arg: String,
    pub index: u64,
    pub desc: Value,
    pub symptom: String,
    pub detail: String,
}

#[derive(Default)]
pub struct Agg {
    pub evaluations: u64,
    pub nontrivial_keys: HashSet<u64>,
    pub outcomes: HashSet<u64>,
    pub err_returns: u64,
    pub counters: BTreeMap<String, u64>,
    pub samples: Vec<Value>,
    pub viols: Vec<FoundViol>,
    pub payloads: Vec<(u64, Value)>,
    pub spaces: Vec<Value>,
    pub complete: bool,
}

fn fnv(s: &str) -> u64 {
    let mut h: u64 = 0xcbf29ce484222325;
    for b in s.as_bytes() {
        h ^= *b as u64;
        h = h.wrapping_mul(0x100000001b3);
    }
    h
}
pub fn hash_str(s: &str) -> u64 {
    fnv(s)
}

fn is_sample_index(i: u64, len: u64) -> bool {
    if i < 2 || i + 1 == len {
        return true;
    }
    let mut p = 10u64;
    while p <= i {
        if p == i {
            return true;
        }
        p = p.saturating_mul(10);
    }
    false
}

// ---------------------------------------------------------------- check driver

pub struct Check {
    pub property: String,
    pub level: String,
    pub tier: Tier,
    pub seed: i64,
    pub builder: SpaceBuilder,
    pub agg: Agg,
    pub start: Instant,
    pub assumptions: Vec<String>,
    pub rule: String,
    pub extra_cov: Map<String, Value>,
    pub jobs: usize,
    pub machinery_errors: Vec<String>,
}

pub enum Mode {
    Supervisor(Check),
    Done,
}

fn parse_tier(s: &str) -> Tier {
    match s {
        "thorough" => Tier::Thorough,
        _ => Tier::Quick,
    }
}

/// Entry point for every check binary.  Handles `--worker`, `--only` (single case, used for
/// deterministic replay) and `--replay <file>`; otherwise returns a supervisor `Check`.
pub fn start(property: &str, level: &str, builder: SpaceBuilder) -> Mode {
    install_panic_hook();
    let args: Vec<String> = std::env::args().collect();
    let mut tier = std::env::var("VERIF_TIER").ok().map(|s| parse_tier(&s)).unwrap_or(Tier::Quick);
    let mut i = 1;
    let mut worker: Option<(usize, usize, String, String, u64)> = None;
    let mut only: Option<(String, String, u64)> = None;
    let mut replay: Option<String> = None;
    while i < args.len() {
        match args[i].as_str() {
            "--tier" => {
                tier = parse_tier(&args[i + 1]);
                i += 1;
            }
            "--worker" => {
                // --worker k n space arg start
                worker = Some((
                    args[i + 1].parse().unwrap(),
                    args[i + 2].parse().unwrap(),
                    args[i + 3].clone(),
                    args[i + 4].clone(),
                    args[i + 5].parse().unwrap(),
                ));
                i += 5;
            }
            "--only" => {
                only = Some((args[i + 1].clone(), args[i + 2].clone(), args[i + 3].parse().unwrap()));
                i += 3;
            }
            "--replay" => {
                replay = Some(args[i + 1].clone());
                i += 1;
            }
            _ => {}
        }
        i += 1;
    }
    if let Some((k, n, space, arg, startj)) = worker {
        worker_main(builder, tier, k, n, &space, &arg, startj);
        return Mode::Done;
    }
    if let Some((space, arg, idx)) = only {
        let sp = builder(&space, &arg, tier);
        let r = run_one(&*sp, idx);
        println!("{}", result_json(idx, &*sp, &r, true));
        return Mode::Done;
    }
    if let Some(path) = replay {
        let txt = std::fs::read_to_string(&path).expect("replay file");
        let v: Value = serde_json::from_str(&txt).expect("replay json");
        let t = parse_tier(v["tier"].as_str().unwrap_or("quick"));
        let space = v["space"].as_str().unwrap_or("main").to_string();
        let arg = v["arg"].as_str().unwrap_or("").to_string();
        let idx = v["index"].as_u64().unwrap_or(0);
        let sp = builder(&space, &arg, t);
        let r = run_one(&*sp, idx);
        println!("case: {}", sp.describe(idx));
        if r.viols.is_empty() {
            println!("replay: no violation");
            std::process::exit(0);
        }
        for vv in &r.viols {
            println!("replay: {} :: {}", vv.symptom, vv.detail);
        }
        println!("VIOLATION property={} replay={}", property, path);
        std::process::exit(1);
    }
    let seed = std::env::var("VERIF_SEED").ok().and_then(|s| s.parse().ok()).unwrap_or(0);
    let jobs = std::env::var("VERIF_JOBS")
        .ok()
        .and_then(|s| s.parse().ok())
        .unwrap_or_else(|| std::thread::available_parallelism().map(|n| n.get()).unwrap_or(8));
    Mode::Supervisor(Check {
        property: property.to_string(),
        level: level.to_string(),
        tier,
        seed,
        builder,
        agg: Agg { complete: true, ..Default::default() },
        start: Instant::now(),
        assumptions: vec![
            "subject built from /repo working tree, release profile opt-level=2 with overflow-checks=on (arithmetic overflow counts as a panic)".into(),
        ],
        rule: String::new(),
        extra_cov: Map::new(),
        jobs,
        machinery_errors: vec![],
    })
}

fn run_one(sp: &dyn Space, idx: u64) -> CaseResult {
    let mut res = CaseResult::new();
    match guarded(|| sp.run(idx)) {
        Ok(r) => res = r,
        Err((file, line, msg)) => {
            res.viol(panic_class(&file, &msg), format!("panic at {}:{}: {}", file, line, msg));
        }
    }
    res
}

fn result_json(idx: u64, sp: &dyn Space, r: &CaseResult, force_desc: bool) -> String {
    let mut m = Map::new();
    m.insert("i".into(), json!(idx));
    m.insert("nt".into(), json!(r.nontrivial));
    if !r.key.is_empty() {
        m.insert("k".into(), json!(fnv(&r.key)));
    }
    m.insert("o".into(), json!(fnv(&r.outcome)));
    if r.err_return {
        m.insert("e".into(), json!(true));
    }
    if !r.counters.is_empty() {
        let mut c = Map::new();
        for (k, n) in &r.counters {
            c.insert(k.clone(), json!(n));
        }
        m.insert("c".into(), Value::Object(c));
    }
    if !r.viols.is_empty() {
        m.insert(
            "v".into(),
            Value::Array(r.viols.iter().map(|v| json!({"s": v.symptom, "d": v.detail})).collect()),
        );
    }
    if let Some(p) = &r.payload {
        m.insert("p".into(), p.clone());
    }
    if force_desc || !r.viols.is_empty() || is_sample_index(idx, sp.len()) {
        m.insert("desc".into(), sp.describe(idx));
    }
    Value::Object(m).to_string()
}

fn worker_main(builder: SpaceBuilder, tier: Tier, k: usize, n: usize, space: &str, arg: &str, startj: u64) {
    let sp = builder(space, arg, tier);
    let len = sp.len();
    let out = std::io::stdout();
    let mut idx = startj;
    while idx < len {
        if owner(idx, n) != k {
            idx += 1;
            continue;
        }
        {
            let mut o = out.lock();
            let _ = writeln!(o, "S\t{}", idx);
            let _ = o.flush();
        }
        let r = run_one(&*sp, idx);
        {
            let mut o = out.lock();
            let _ = writeln!(o, "R\t{}", result_json(idx, &*sp, &r, false));
            let _ = o.flush();
        }
        idx += 1;
    }
}

/// which worker runs case `i`: a hash, so that slow regions of a product space are spread evenly
pub fn owner(i: u64, n: usize) -> usize {
    let mut z = i.wrapping_add(0x9E3779B97F4A7C15);
    z = (z ^ (z >> 30)).wrapping_mul(0xBF58476D1CE4E5B9);
    z = (z ^ (z >> 27)).wrapping_mul(0x94D049BB133111EB);
    ((z ^ (z >> 31)) % n as u64) as usize
}

impl Check {
    pub fn assume(&mut self, s: impl Into<String>) {
        self.assumptions.push(s.into());
    }

    /// Enumerate space `name` completely on worker subprocesses; returns payloads of this space.
    pub fn run_space(&mut self, name: &str, arg: &str) -> Vec<(u64, Value)> {
        let sp = (self.builder)(name, arg, self.tier);
        let len = sp.len();
        let timeout = sp.case_timeout();
        let n = self.jobs.min(len.max(1) as usize).max(1);
        let exe = std::env::current_exe().expect("current_exe");
        let shared = Arc::new(Mutex::new(Agg::default()));
        let done_cases = Arc::new(AtomicU64::new(0));
        let errs = Arc::new(Mutex::new(Vec::<String>::new()));
        let t0 = Instant::now();
        let mut handles = vec![];
        let budget = std::env::var("VERIF_WALL_CAP_S").ok().and_then(|s| s.parse::<u64>().ok());
        let capped = Arc::new(AtomicUsize::new(0));
        for k in 0..n {
            let exe = exe.clone();
            let shared = shared.clone();
            let done_cases = done_cases.clone();
            let errs = errs.clone();
            let name = name.to_string();
            let arg = arg.to_string();
            let tier = self.tier;
            let capped = capped.clone();
            handles.push(std::thread::spawn(move || {
                let mut startj: u64 = 0;
                let mut restarts = 0u32;
                loop {
                    if startj >= len {
                        break;
                    }
                    let errfile = format!("/dev/shm/verif-worker-{}-{}.err", std::process::id(), k);
                    let mut child = match Command::new(&exe)
                        .args(["--tier", tier.as_str(), "--worker"])
                        .arg(k.to_string())
                        .arg(n.to_string())
                        .arg(&name)
                        .arg(&arg)
                        .arg(startj.to_string())
                        .stdin(Stdio::null())
                        .stdout(Stdio::piped())
                        .stderr(std::fs::File::create(&errfile).map(Stdio::from).unwrap_or_else(|_| Stdio::null()))
                        .env("VERIF_PANIC_STDERR", "1")
                        .spawn()
                    {
                        Ok(c) => c,
                        Err(e) => {
                            errs.lock().unwrap().push(format!("spawn worker: {e}"));
                            return;
                        }
                    };
                    let pid = child.id();
                    let stdout = child.stdout.take().unwrap();
                    let cur: Arc<Mutex<Option<(u64, Instant)>>> = Arc::new(Mutex::new(None));
                    let hung = Arc::new(AtomicUsize::new(0));
                    let finished = Arc::new(AtomicUsize::new(0));
                    // watchdog
                    let wd = {
                        let cur = cur.clone();
                        let hung = hung.clone();
                        let finished = finished.clone();
                        let capped = capped.clone();
                        std::thread::spawn(move || loop {
                            std::thread::sleep(Duration::from_millis(200));
                            if finished.load(Ordering::SeqCst) != 0 {
                                return;
                            }
                            if let Some(b) = budget {
                                if t0.elapsed().as_secs() > b {
                                    capped.store(1, Ordering::SeqCst);
                                    unsafe { libc::kill(pid as i32, libc::SIGKILL) };
                                    return;
                                }
                            }
                            let c = *cur.lock().unwrap();
                            if let Some((_, t)) = c {
                                if t.elapsed().as_secs() >= timeout {
                                    hung.store(1, Ordering::SeqCst);
                                    unsafe { libc::kill(pid as i32, libc::SIGKILL) };
                                    return;
                                }
                            }
                        })
                    };
                    let rd = BufReader::new(stdout);
                    let mut last_started: Option<u64> = None;
                    for line in rd.lines() {
                        let Ok(line) = line else { break };
                        if let Some(rest) = line.strip_prefix("S\t") {
                            let idx: u64 = rest.trim().parse().unwrap_or(u64::MAX);
                            last_started = Some(idx);
                            *cur.lock().unwrap() = Some((idx, Instant::now()));
                        } else if let Some(rest) = line.strip_prefix("R\t") {
                            *cur.lock().unwrap() = None;
                            match serde_json::from_str::<Value>(rest) {
                                Ok(v) => {
                                    let idx = v["i"].as_u64().unwrap_or(0);
                                    if last_started == Some(idx) {
                                        last_started = None;
                                    }
                                    absorb(&mut shared.lock().unwrap(), &name, &arg, &v, len);
                                    done_cases.fetch_add(1, Ordering::Relaxed);
                                    startj = idx + 1;
                                }
                                Err(e) => errs.lock().unwrap().push(format!("bad worker line: {e}")),
                            }
                        }
                    }
                    finished.store(1, Ordering::SeqCst);
                    let status = child.wait();
                    let _cleanup = scopeguard_remove(&errfile);
                    let _ = wd.join();
                    if capped.load(Ordering::SeqCst) != 0 {
                        return;
                    }
                    if let Some(idx) = last_started {
                        // died or hung inside case idx
                        let how = if hung.load(Ordering::SeqCst) != 0 {
                            format!("hang: no result within {}s (watchdog)", timeout)
                        } else {
                            use std::os::unix::process::ExitStatusExt;
                            match status {
                                Ok(s) => match s.signal() {
                                    Some(sig) => format!("crash: worker killed by signal {}", sig),
                                    None => format!("crash: worker exited with status {:?}", s.code()),
                                },
                                Err(e) => format!("crash: wait failed {e}"),
                            }
                        };
                        // last words of the worker (panic messages of non-unwinding panics, allocator aborts)
                        let tail: String = std::fs::read_to_string(&errfile).unwrap_or_default().lines().rev().take(4).collect::<Vec<_>>().into_iter().rev().collect::<Vec<_>>().join(" | ");
                        let how = if tail.contains("deadlock") { format!("{how} (deadlock reported by the scheduler)") } else { how };
                        let v = json!({"i": idx, "nt": true, "o": 0, "v": [{"s": how, "d": format!("process-level failure attributed to this case; worker stderr: {}", tail.chars().take(600).collect::<String>())}], "needdesc": true});
                        absorb(&mut shared.lock().unwrap(), &name, &arg, &v, len);
                        done_cases.fetch_add(1, Ordering::Relaxed);
                        startj = idx + 1;
                        restarts += 1;
                        if restarts > 2000 {
                            errs.lock().unwrap().push("too many worker restarts".into());
                            return;
                        }
                    } else {
                        // clean end (or died between cases)
                        let ok = status.as_ref().map(|s| s.success()).unwrap_or(false);
                        if !ok {
                            errs.lock().unwrap().push(format!("worker {k} died between cases: {:?}", status));
                            return;
                        }
                        if ok {
                            break;
                        }
                    }
                }
            }));
        }
        for h in handles {
            let _ = h.join();
        }
        let mut part = std::mem::take(&mut *shared.lock().unwrap());
        for e in errs.lock().unwrap().drain(..) {
            self.machinery_errors.push(e);
        }
        let was_capped = capped.load(Ordering::SeqCst) != 0;
        if was_capped || part.evaluations < len {
            self.agg.complete = false;
        }
        if !was_capped && part.evaluations != len && self.machinery_errors.is_empty() {
            self.machinery_errors.push(format!(
                "space {name}: {} results for {} cases",
                part.evaluations, len
            ));
        }
        // fill descriptors for crash/hang cases
        for fv in part.viols.iter_mut() {
            if fv.desc.is_null() {
                fv.desc = sp.describe(fv.index);
            }
        }
        self.agg.spaces.push(json!({"space": name, "cases": len, "executed": part.evaluations, "capped": was_capped, "wall_s": t0.elapsed().as_secs_f64()}));
        self.agg.evaluations += part.evaluations;
        self.agg.err_returns += part.err_returns;
        for k in part.nontrivial_keys.drain() {
            self.agg.nontrivial_keys.insert(k ^ fnv(name));
        }
        for o in part.outcomes.drain() {
            self.agg.outcomes.insert(o);
        }
        for (k, n) in part.counters {
            *self.agg.counters.entry(k).or_insert(0) += n;
        }
        if self.agg.samples.len() < 24 {
            for s in part.samples.into_iter().take(8) {
                self.agg.samples.push(s);
            }
        }
        self.agg.viols.append(&mut part.viols);
        part.payloads.sort_by_key(|p| p.0);
        part.payloads
    }

    /// Finish: triage violations, write evidence, print verdict lines and exit.
    pub fn finish(mut self) -> ! {
        let known = load_known(&self.property);
        let mut known_hits: Vec<u64> = vec![0; known.len()];
        // group unknown violations by symptom, keeping the lowest (space order, index) first
        let mut groups: BTreeMap<String, Vec<FoundViol>> = BTreeMap::new();
        for v in self.agg.viols.drain(..) {
            let d = v.desc.to_string();
            if let Some(k) = match_known(&known, &d, &v.symptom) {
                known_hits[k] += 1;
            } else {
                groups.entry(v.symptom.clone()).or_default().push(v);
            }
        }
        let mut reported = 0usize;
        let mut unknown_total = 0u64;
        let mut lines = vec![];
        let exe = std::env::current_exe().expect("exe");
        let rdir = format!("{}/replays/{}", VERIF_ROOT, self.property);
        for vs in groups.values_mut() {
            vs.sort_by_key(|v| v.index);
        }
        for (sym, vs) in groups.iter() {
            unknown_total += vs.len() as u64;
            if reported >= 40 {
                continue;
            }
            let first = &vs[0];
            // deterministic replay, twice, in fresh processes (process-level failures are re-run too)
            let mut seen = vec![];
            for _ in 0..2 {
                let out = output_with_timeout(
                    Command::new(&exe).args(["--tier", self.tier.as_str(), "--only", &first.space, &first.arg, &first.index.to_string()]),
                    if sym.starts_with("hang:") { (self.builder)(&first.space, &first.arg, self.tier).case_timeout() + 5 } else { 600 },
                );
                let syms: Vec<String> = match out {
                    Err(e) if e == "timeout" => vec!["<timeout>".into()],
                    Err(_) => vec!["<spawn failed>".into()],
                    Ok((true, stdout)) => {
                        let s = stdout;
                        let v: Value = s.lines().last().and_then(|l| serde_json::from_str(l).ok()).unwrap_or(Value::Null);
                        let mut a: Vec<String> = v["v"]
                            .as_array()
                            .map(|a| a.iter().map(|x| x["s"].as_str().unwrap_or("").to_string()).collect())
                            .unwrap_or_default();
                        a.sort();
                        a
                    }
                    Ok(_) => vec!["<process died>".into()],
                };
                seen.push(syms);
            }
            let process_level = sym.starts_with("crash:") || sym.starts_with("hang:");
            if !process_level && (seen[0] != seen[1] || !seen[0].contains(sym)) {
                self.machinery_errors.push(format!(
                    "non-deterministic violation: case {} symptom {:?}; replays saw {:?} / {:?}",
                    first.index, sym, seen[0], seen[1]
                ));
                continue;
            }
            if process_level && seen[0] != seen[1] {
                self.machinery_errors.push(format!("non-deterministic process failure at case {}: {:?} / {:?}", first.index, seen[0], seen[1]));
                continue;
            }
            if sym.starts_with("hang:") && seen[0] != vec!["<timeout>".to_string()] {
                self.machinery_errors.push(format!("hang at case {} did not reproduce in isolation: {:?}", first.index, seen[0]));
                continue;
            }
            if process_level && seen[0] != vec!["<process died>".to_string()] && !sym.starts_with("hang:") {
                self.machinery_errors.push(format!("crash at case {} did not reproduce in isolation", first.index));
                continue;
            }
            let _ = std::fs::create_dir_all(&rdir);
            let tag = std::env::var("VERIF_REPLAY_TAG").map(|t| format!("{t}-")).unwrap_or_default();
            let path = format!("{}/{}-{}{:016x}.json", rdir, self.tier.as_str(), tag, fnv(sym));
            let body = json!({
                "property": self.property, "tier": self.tier.as_str(), "space": first.space, "arg": first.arg,
                "index": first.index, "case": first.desc, "symptom": sym, "detail": first.detail,
                "occurrences_this_run": vs.len(),
                "how_to_replay": format!("{} --replay {}", exe.display(), path),
            });
            let _ = std::fs::write(&path, serde_json::to_string_pretty(&body).unwrap());
            lines.push(format!("VIOLATION property={} replay={}", self.property, path));
            eprintln!("  violation: {} :: {} (x{})", sym, first.detail, vs.len());
            reported += 1;
        }
        for (k, kn) in known.iter().enumerate() {
            if known_hits[k] > 0 {
                println!("KNOWN-FINDING: property={} {}: {} (hits={})", self.property, kn.id, kn.what, known_hits[k]);
            } else {
                eprintln!("note: known finding {} not reached in this tier", kn.id);
            }
        }
        let nontriv = self.agg.nontrivial_keys.len() as u64;
        let mut cov = Map::new();
        cov.insert("evaluations".into(), json!(self.agg.evaluations));
        cov.insert("distinct_nontrivial".into(), json!(nontriv));
        cov.insert("rule".into(), json!(self.rule));
        cov.insert("samples".into(), Value::Array(self.agg.samples.clone()));
        cov.insert("exhaustive".into(), json!(self.agg.complete && self.machinery_errors.is_empty()));
        cov.insert("distinct_outcomes".into(), json!(self.agg.outcomes.len()));
        cov.insert("error_returns".into(), json!(self.agg.err_returns));
        cov.insert("known_finding_hits".into(), json!(known_hits.iter().sum::<u64>()));
        cov.insert("spaces".into(), Value::Array(self.agg.spaces.clone()));
        for (k, n) in &self.agg.counters {
            cov.insert(k.clone(), json!(n));
        }
        for (k, v) in self.extra_cov.iter() {
            cov.insert(k.clone(), v.clone());
        }
        // coverage of companion binaries of the same check (VERIF_MERGE_EVIDENCE="key=path,key=path")
        if let Ok(spec) = std::env::var("VERIF_MERGE_EVIDENCE") {
            for item in spec.split(',') {
                if let Some((k, path)) = item.split_once('=') {
                    match std::fs::read_to_string(path).ok().and_then(|t| serde_json::from_str::<Value>(&t).ok()) {
                        Some(v) => {
                            cov.insert(k.to_string(), v["coverage"].clone());
                        }
                        None => self.machinery_errors.push(format!("companion evidence {path} missing or unreadable")),
                    }
                }
            }
        }
        if self.agg.evaluations > 0 && self.agg.err_returns * 2 > self.agg.evaluations {
            cov.insert("vacuity_warning".into(), json!("more than half of the cases were refused by the subject"));
            eprintln!("vacuity_warning: more than half of the cases were refused");
        }
        let ev = json!({
            "property_id": self.property, "tier": self.tier.as_str(), "seed": self.seed, "level": self.level,
            "coverage": Value::Object(cov), "assumptions": self.assumptions,
            "wall_s": self.start.elapsed().as_secs_f64(), "violations": unknown_total,
            "machinery_errors": self.machinery_errors,
        });
        let _ = std::fs::create_dir_all(format!("{}/evidence", VERIF_ROOT));
        let epath = std::env::var("VERIF_EVIDENCE_PATH").unwrap_or_else(|_| format!("{}/evidence/{}.json", VERIF_ROOT, self.property));
        if let Err(e) = std::fs::write(&epath, serde_json::to_string_pretty(&ev).unwrap()) {
            eprintln!("machinery: cannot write evidence: {e}");
            std::process::exit(2);
        }
        eprintln!(
            "{} {}: cases={} nontrivial={} outcomes={} err_returns={} unknown_violations={} wall={:.1}s",
            self.property,
            self.tier.as_str(),
            self.agg.evaluations,
            nontriv,
            self.agg.outcomes.len(),
            self.agg.err_returns,
            unknown_total,
            self.start.elapsed().as_secs_f64()
        );
        if !self.machinery_errors.is_empty() {
            for e in &self.machinery_errors {
                eprintln!("MACHINERY-ERROR: {e}");
            }
            std::process::exit(2);
        }
        if !lines.is_empty() {
            for l in lines {
                println!("{l}");
            }
            std::process::exit(1);
        }
        std::process::exit(0);
    }
}

fn absorb(a: &mut Agg, space: &str, arg: &str, v: &Value, len: u64) {
    a.evaluations += 1;
    let idx = v["i"].as_u64().unwrap_or(0);
    if v["nt"].as_bool().unwrap_or(false) {
        let k = v["k"].as_u64().unwrap_or(idx.wrapping_mul(0x9E3779B97F4A7C15) ^ 0x5555);
        a.nontrivial_keys.insert(k);
    }
    if let Some(o) = v["o"].as_u64() {
        a.outcomes.insert(o);
    }
    if v["e"].as_bool().unwrap_or(false) {
        a.err_returns += 1;
    }
    if let Some(c) = v["c"].as_object() {
        for (k, n) in c {
            *a.counters.entry(k.clone()).or_insert(0) += n.as_u64().unwrap_or(0);
        }
    }
    if let Some(vs) = v["v"].as_array() {
        for x in vs {
            a.viols.push(FoundViol {
                space: space.to_string(),
                arg: arg.to_string(),
                index: idx,
                desc: v["desc"].clone(),
                symptom: x["s"].as_str().unwrap_or("").to_string(),
                detail: x["d"].as_str().unwrap_or("").to_string(),
            });
        }
    }
    if !v["p"].is_null() {
        a.payloads.push((idx, v["p"].clone()));
    }
    if is_sample_index(idx, len) && !v["desc"].is_null() && a.samples.len() < 12 {
        a.samples.push(json!({"space": space, "index": idx, "case": v["desc"].clone()}));
    }
}

struct RemoveOnDrop(String);
impl Drop for RemoveOnDrop {
    fn drop(&mut self) {
        let _ = std::fs::remove_file(&self.0);
    }
}
fn scopeguard_remove(p: &str) -> RemoveOnDrop {
    RemoveOnDrop(p.to_string())
}

/// run a command to completion with a wall-clock limit; Ok((success, stdout)) or Err("timeout")
pub fn output_with_timeout(cmd: &mut Command, secs: u64) -> Result<(bool, String), String> {
    let mut child = cmd.stdin(Stdio::null()).stdout(Stdio::piped()).stderr(Stdio::null()).spawn().map_err(|e| e.to_string())?;
    let mut stdout = child.stdout.take().unwrap();
    let reader = std::thread::spawn(move || {
        let mut s = String::new();
        let _ = std::io::Read::read_to_string(&mut stdout, &mut s);
        s
    });
    let t0 = Instant::now();
    loop {
        match child.try_wait() {
            Ok(Some(st)) => {
                let out = reader.join().unwrap_or_default();
                return Ok((st.success(), out));
            }
            Ok(None) => {
                if t0.elapsed().as_secs() >= secs {
                    let _ = child.kill();
                    let _ = child.wait();
                    let _ = reader.join();
                    return Err("timeout".into());
                }
                std::thread::sleep(Duration::from_millis(20));
            }
            Err(e) => return Err(e.to_string()),
        }
    }
}

/// scratch directory for this process, removed by `Scratch::drop`
pub struct Scratch(pub std::path::PathBuf);
impl Scratch {
    pub fn new(tag: &str) -> Scratch {
        let base = if std::path::Path::new("/dev/shm").is_dir() { "/dev/shm".to_string() } else { format!("{}/.scratch", VERIF_ROOT) };
        let p = std::path::PathBuf::from(format!("{}/verif-{}-{}", base, tag, std::process::id()));
        let _ = std::fs::remove_dir_all(&p);
        std::fs::create_dir_all(&p).expect("scratch");
        Scratch(p)
    }
    pub fn path(&self, name: &str) -> std::path::PathBuf {
        self.0.join(name)
    }
}
impl Drop for Scratch {
    fn drop(&mut self) {
        let _ = std::fs::remove_dir_all(&self.0);
    }
}

// ---------------------------------------------------------------- one fresh process per case

/// Runs every case of the wrapped space in a forked child of the worker, so that process-global state of
/// the subject (a global thread pool, thread-locals of pool threads, lazily built statics) starts pristine
/// for each case and a verdict cannot depend on which cases the same worker ran before.  The worker itself
/// never executes subject code.  The child reports its `CaseResult` as JSON through a pipe; a child that dies
/// (panic outside `guarded`, signal) is a violation attributed to the case.
pub struct Forked<S: Space>(pub S);
impl<S: Space> Space for Forked<S> {
    fn len(&self) -> u64 {
        self.0.len()
    }
    fn describe(&self, i: u64) -> Value {
        self.0.describe(i)
    }
    fn case_timeout(&self) -> u64 {
        self.0.case_timeout()
    }
    fn run(&self, i: u64) -> CaseResult {
        use std::io::Read;
        use std::os::fd::FromRawFd;
        let mut fds = [0i32; 2];
        assert_eq!(unsafe { libc::pipe(fds.as_mut_ptr()) }, 0, "pipe");
        let pid = unsafe { libc::fork() };
        assert!(pid >= 0, "fork");
        if pid == 0 {
            unsafe { libc::close(fds[0]) };
            let res = std::panic::catch_unwind(std::panic::AssertUnwindSafe(|| self.0.run(i)));
            let code = match res {
                Ok(r) => {
                    let v = json!({
                        "nontrivial": r.nontrivial, "key": r.key, "outcome": r.outcome, "err_return": r.err_return,
                        "viols": r.viols.iter().map(|v| json!([v.symptom, v.detail])).collect::<Vec<_>>(),
                        "counters": r.counters.iter().map(|c| json!([c.0, c.1])).collect::<Vec<_>>(),
                        "payload": r.payload,
                    });
                    let bytes = serde_json::to_vec(&v).unwrap_or_default();
                    let mut off = 0usize;
                    while off < bytes.len() {
                        let n = unsafe { libc::write(fds[1], bytes[off..].as_ptr() as *const libc::c_void, bytes.len() - off) };
                        if n <= 0 {
                            break;
                        }
                        off += n as usize;
                    }
                    0
                }
                Err(_) => 101,
            };
            unsafe { libc::_exit(code) }
        }
        unsafe { libc::close(fds[1]) };
        let mut f = unsafe { std::fs::File::from_raw_fd(fds[0]) };
        let mut buf = vec![];
        let _ = f.read_to_end(&mut buf);
        let mut status = 0i32;
        unsafe { libc::waitpid(pid, &mut status, 0) };
        let mut r = CaseResult::new();
        match serde_json::from_slice::<Value>(&buf) {
            Ok(v) if libc::WIFEXITED(status) && libc::WEXITSTATUS(status) == 0 => {
                r.nontrivial = v["nontrivial"].as_bool().unwrap_or(false);
                r.key = v["key"].as_str().unwrap_or("").to_string();
                r.outcome = v["outcome"].as_str().unwrap_or("").to_string();
                r.err_return = v["err_return"].as_bool().unwrap_or(false);
                for x in v["viols"].as_array().cloned().unwrap_or_default() {
                    r.viol(x[0].as_str().unwrap_or(""), x[1].as_str().unwrap_or(""));
                }
                for x in v["counters"].as_array().cloned().unwrap_or_default() {
                    r.count(x[0].as_str().unwrap_or(""), x[1].as_u64().unwrap_or(0));
                }
                if !v["payload"].is_null() {
                    r.payload = Some(v["payload"].clone());
                }
            }
            _ => {
                r.nontrivial = true;
                r.key = format!("{i}");
                let how = if libc::WIFSIGNALED(status) { format!("killed by signal {}", libc::WTERMSIG(status)) } else { format!("exit status {}", libc::WEXITSTATUS(status)) };
                r.viol("crash: the case's own process died", format!("{how}; {} bytes of result received", buf.len()));
            }
        }
        r
    }
}
