#!/usr/bin/env bash
# C09: (1) configuration sweep on the real rayon (workspace A), (2) schedule exploration under loom
# with the rayon stand-in (workspace B).  The loom binary writes the evidence and embeds the sweep.
set -u
cleanup_scratch() {
  # scratch directories of workers that were killed (only those whose owning process is gone)
  # only directories untouched for an hour: a check running next to this one may own a directory whose
  # creating process has already exited (forked helpers), and must not lose it
  for d in $(find /dev/shm -maxdepth 1 -type d -name 'verif-*-[0-9]*' -mmin +60 2>/dev/null); do
    pid="${d##*-}"
    [ -d "/proc/$pid" ] || rm -rf "$d"
  done
}
TIER="$1"; shift
cd /verif
export CARGO_NET_OFFLINE=true
ST="${VERIF_SCHED_TARGET:-/verif/.target-sched}"
AT="${CARGO_TARGET_DIR:-/verif/.target}"
mkdir -p "$AT" "$ST"
LOG=$(mktemp "$AT"/build-c09.XXXXXX.log)
( cd harness && CARGO_TARGET_DIR="$AT" cargo build --release --offline -p c09cfg ) >"$LOG" 2>&1 || { tail -30 "$LOG" >&2; echo "MACHINERY-ERROR: build failed for C09 (sweep)" >&2; rm -f "$LOG"; exit 2; }
( cd harness-sched && CARGO_TARGET_DIR="$ST" cargo build --release --offline -p c09 ) >"$LOG" 2>&1 || { tail -30 "$LOG" >&2; echo "MACHINERY-ERROR: build failed for C09 (loom)" >&2; rm -f "$LOG"; exit 2; }
rm -f "$LOG"
if [ "${1:-}" = "--replay" ]; then
  case "$2" in
    *sweep*) exec "$AT"/release/c09cfg --tier "$TIER" "$@";;
    *) exec "$ST"/release/c09 --tier "$TIER" "$@";;
  esac
fi
rm -f "$AT"/c09-sweep-evidence.json
VERIF_EVIDENCE_PATH="$AT"/c09-sweep-evidence.json VERIF_REPLAY_TAG=sweep "$AT"/release/c09cfg --tier "$TIER"; rc1=$?
"$ST"/release/c09 --tier "$TIER"; rc2=$?
cleanup_scratch
# a violation found (and replayed) by either binary is the verdict; any other non-zero status of either
# binary (2, a panic's 101, a signal) is a machinery failure, never "held"
if [ $rc1 -eq 1 ] || [ $rc2 -eq 1 ]; then exit 1; fi
if [ $rc1 -ne 0 ] || [ $rc2 -ne 0 ]; then exit 2; fi
exit 0
