#!/usr/bin/env bash
# C17: (1) parallel access path under loom (workspace B), (2) the schema/record-set enumeration (workspace A).
set -u
cleanup_scratch() {
  # scratch directories of workers that were killed (only those whose owning process is gone)
  # only directories untouched for an hour: a check running next to this one may own a directory whose
  # creating process has already exited (forked helpers), and must not lose it
  for d in $(find /dev/shm -maxdepth 1 -type d -name 'verif-*-[0-9]*' -mmin +60 2>/dev/null); do
    pid="${d##*-}"
    [ -d "/proc/$pid" ] || rm -rf "$d"
  done
}
TIER="$1"; shift
cd /verif
export CARGO_NET_OFFLINE=true
ST="${VERIF_SCHED_TARGET:-/verif/.target-sched}"
AT="${CARGO_TARGET_DIR:-/verif/.target}"
mkdir -p "$AT" "$ST"
LOG=$(mktemp "$AT"/build-c17.XXXXXX.log)
( cd harness-sched && CARGO_TARGET_DIR="$ST" cargo build --release --offline -p c17p ) >"$LOG" 2>&1 || { tail -30 "$LOG" >&2; echo "MACHINERY-ERROR: build failed for C17 (loom)" >&2; rm -f "$LOG"; exit 2; }
( cd harness && CARGO_TARGET_DIR="$AT" cargo build --release --offline -p c17 ) >"$LOG" 2>&1 || { tail -30 "$LOG" >&2; echo "MACHINERY-ERROR: build failed for C17" >&2; rm -f "$LOG"; exit 2; }
rm -f "$LOG"
if [ "${1:-}" = "--replay" ]; then
  case "$2" in
    *parallel-loom*) exec "$ST"/release/c17p --tier "$TIER" "$@";;
    *) exec "$AT"/release/c17 --tier "$TIER" "$@";;
  esac
fi
SIDE="$AT"/c17p-evidence.json
rm -f "$SIDE"
VERIF_EVIDENCE_PATH="$SIDE" VERIF_REPLAY_TAG=parallel-loom "$ST"/release/c17p --tier "$TIER" 2>&1 | grep -v 'not reached in this tier'; rc1=${PIPESTATUS[0]}
VERIF_MERGE_EVIDENCE="parallel_path_under_loom=$SIDE" "$AT"/release/c17 --tier "$TIER"; rc2=$?
cleanup_scratch
# a violation found (and replayed) by either binary is the verdict; any other non-zero status of either
# binary (2, a panic's 101, a signal) is a machinery failure, never "held"
if [ $rc1 -eq 1 ] || [ $rc2 -eq 1 ]; then exit 1; fi
if [ $rc1 -ne 0 ] || [ $rc2 -ne 0 ]; then exit 2; fi
exit 0
