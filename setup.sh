#!/usr/bin/env bash
# Run once after a fresh restore, offline: builds the verification framework from files on disk.
set -e
cd /verif
export CARGO_NET_OFFLINE=true
mkdir -p .target evidence replays
( cd harness && cargo build --release --offline 2>&1 | tail -3 )
( cd harness-sched && CARGO_TARGET_DIR=/verif/.target-sched cargo build --release --offline 2>&1 | tail -2 )
( cd /repo && CARGO_TARGET_DIR=/verif/.target/repo-cli cargo build --offline -p warcraft-rs 2>&1 | tail -2 )
gcc -shared -fPIC -O2 -o /verif/.target/libshortwrite.so /verif/faultfs/shortwrite.c -ldl
