#!/usr/bin/env bash
# tools/benign_one.sh <TAG> <k> <check ids...>  (env SLOT): run checks against a property-preserving change; any VIOLATION is a false alarm
TAG=$1; K=$2; shift 2
mkdir -p /tmp/seed-res
{
  echo "##### benign $TAG/$K ($*)"; /verif/tools/mutcheck.sh /tmp/benign-out/$TAG/$K/patch.diff $* 2>&1 | grep -v conda | cut -c1-400
} > /tmp/seed-res/benign-$TAG-$K.txt 2>&1
