#!/usr/bin/env python3
"""Generates /verif/MANIFEST.json from the table below (single source of truth) and validates it."""
import json, sys
CHECKS = {
 "C04": dict(cat="exploration", engine="xplore", design="DESIGN.md §3 C04",
   technique="bounded-exhaustive enumeration of the stated finite domains (all <=2-char strings, all 1280 table entries, all 2^32 keys in thorough) executed on the real functions and compared with an independent reference implementation",
   text="Every element of the finite domains the property names is executed on the real code and compared with an independently written reference (crypt-table recurrence, MPQ name hash, block cipher, lookup3); inversion is checked on every key. Exhaustive within the stated alphabets; nothing is claimed for longer strings beyond the enumerated families.",
   note="Trusted: refimpl (independent re-implementation from the published algorithms), rustc. &str API restricts reachable bytes (stated in evidence)."),
}
CHECKS["C01"]=dict(cat="exploration", engine="xplore", design="DESIGN.md §3 C01",
   technique="bounded-exhaustive enumeration of the full builder-configuration product x content classes, each built with the real ArchiveBuilder and read back through the real Archive under every name spelling, judged against the added (name, bytes) list",
   text="Every tuple of the configuration product (version x sector shift x compression x crypto x sector CRC x attributes x listfile x table compression) x content texture is built and read back on the real code; file lengths sit on every sector boundary and names are forced to collide in the hash table. Exhaustive over the stated axes; nothing is claimed outside them.",
   note="Trusted: the generator's ground truth (names, bytes). Lossy ADPCM selectors judged on length only. build() returning Err is an accepted refusal.")
CHECKS["C03"]=dict(cat="exploration", engine="xplore", design="DESIGN.md §3 C03",
   technique="bounded-exhaustive enumeration of selector x input families (all short strings over boundary alphabets, run-length families around 0x80/0x81/0xFF, size ladder x textures) through the real compress/decompress/decompress_secure",
   text="Each (selector, input) of the enumerated families is compressed and decompressed by the real code under default SecurityLimits; oracle = identity, never-expands, raw-or-prefixed form. Exhaustive within the families; inputs up to 2^17 (quick) / 2^21 (thorough).",
   note="Compressor refusals (Err) are accepted and counted. ADPCM judged on length and channel sides only.")
CHECKS["C02"]=dict(cat="exploration", engine="xplore", design="DESIGN.md §3 C02",
   technique="bounded-exhaustive differential enumeration: every configuration of the published MPQ subset x content classes is written by one implementation and read by the other (library vs independent refimpl::mpqref), both directions",
   text="Full product of the published-subset axes (V1/V2, shifts, none/zlib/bzip2, plain/encrypted/fix-key, single-unit, hash sizes, listfile) x 6 textures; each archive carries files on every sector-boundary length under colliding, directory-nested names and is cross-read bit for bit. The independent side breaks the same-code-on-both-sides symmetry of self round-trips (it found the full-path file key, the trailing-dword cipher step and whole-file decryption of uncompressed multi-sector files).",
   note="Trusted: refimpl::mpqref (independent reader/writer written from the published format; zlib/bzip2 streams via flate2/bzip2 crates).")
CHECKS["C16"]=dict(cat="exploration", engine="xplore", design="DESIGN.md §3 C16",
   technique="bounded-exhaustive enumeration of (target encoding x image size) x pixel classes x mipmap settings through the real image_to_blp/encode_blp/parse_blp/blp_to_image, judged by structural equality, an independent byte-level header/offset walker and an independent RAW1/RAW3 decoder",
   text="Every (target, size) pair of the stated grids (all sizes 1..9/15..17/31..33 squared in quick, 1..33 squared plus powers of two and odd shapes in thorough) x 5 pixel classes x mip settings is encoded and parsed by the real code; an independent walker written from the format documentation checks header, offset table, mip chain and lossless pixels.",
   note="Trusted: props/c16/src/refblp.rs (independent walker/decoder), the image crate for JPEG level decode. Lossy encodings judged on structure only.")
CHECKS["C17"]=dict(cat="exploration", engine="xplore", design="DESIGN.md §3 C17",
   technique="bounded-exhaustive enumeration of all schemas up to 3 (quick) / 4 (thorough) fields over the field-kind alphabet x key positions x record-set classes, each written by the real DbcWriter and read through every real access path, judged against an independent DBC emitter/reader",
   text="Every schema of the bounded alphabet with every key option and record-count/key-order/string-layout class is emitted by an independent emitter, parsed, rewritten by the real writer and re-read through eager, lazy, mmap and parallel paths (several pool sizes) and all key-lookup methods; values, sizes, string de-duplication and path agreement are compared.",
   note="Trusted: props/c17/src/dbcref.rs (independent emitter/reader from the documented DBC layout). Parallel path runs on real rayon (pool sizes 1..4); schedule exploration is not claimed here.")
CHECKS["C18"]=dict(cat="exploration", engine="xplore", design="DESIGN.md §3 C18",
   technique="bounded-exhaustive enumeration of tile grids (incl. each of the 4096 single tiles) x flags x optional chunks x versions x conversion pairs through the real WDT/WDL writers, readers and converters, plus all 4096 tile indices for the coordinate maps, judged by field equality, byte-identical second write and an independent chunk walker",
   text="All 4096 tile indices for the coordinate inversion; every grid/flag/version/object-shape combination of the stated axes for WDT and WDL is written, walked by an independent chunk walker (index order, MAOF targets), read back, rewritten and converted between all version pairs.",
   note="Trusted: props/c18/src/walker.rs (independent walker from the format docs). Derived fields (re-detected version, aliased MPHD words) excluded from equality.")
CHECKS["C13"]=dict(cat="exploration", engine="xplore", design="DESIGN.md §3 C13",
   technique="deviation-bounded exhaustive enumeration (all models within <=2 (quick) / <=3 (thorough) section deviations of an all-empty and an all-populated baseline x header versions x all 25 conversion pairs; byte-level seed files with key frames; skin and anim layouts) through the real writer/parser/converter, judged by an independent container walker and field decoder, content equality and byte-identical rewrite",
   text="Every model within the deviation bound over 29 sections x population levels x 8 header numbers, every (from,to) conversion pair, every seed subset, skin layout and anim shape is written, walked by an independent decoder, parsed, rewritten and converted on the real code.",
   note="Trusted: props/c13 walker/indep/emit modules (independent of the crate). Derived offsets are masked in content comparison.")
CHECKS["C15"]=dict(cat="exploration", engine="xplore", design="DESIGN.md §3 C15",
   technique="deviation-bounded exhaustive enumeration (roots over 11 sites and groups over 10 sites within <=3/<=4 deviations of empty and full baselines x 5 versions; all 25 conversion pairs) through the real WmoWriter/WmoParser/parse_wmo/WmoConverter, judged by an independent chunk walker, per-field content equality and byte-identical second write",
   text="Every root/group within the deviation bound x version, and every conversion pair, is written, walked by an independent chunk walker (tiling, counts, string-offset tables), parsed by both parsers and rewritten on the real code.",
   note="Trusted: props/c15/src/walk.rs. Only fields with a counterpart in the parsed type are compared; derived fields excluded.")
NOT_APPLICABLE = {}
def main():
    checks=[]
    for pid,c in sorted(CHECKS.items()):
        checks.append({
          "property_id": pid,
          "quick_cmd": f"./check {pid} --tier quick",
          "thorough_cmd": f"./check {pid} --tier thorough",
          "evidence_file": f"/verif/evidence/{pid}.json",
          "replay_cmd_template": f"./check {pid} --replay {{path}}",
          "engine": c["engine"],
          "level_claimed": {"category": c["cat"], "text": c["text"], "design_ref": c["design"]},
          "level_note": c["note"],
          "technique": c["technique"],
        })
    allp=[json.loads(l)["id"] for l in open("/verif/properties.jsonl")]
    na=[]
    for pid in allp:
        if pid not in CHECKS:
            na.append({"property_id": pid, "reason": NOT_APPLICABLE.get(pid, "check not built yet in this round (planned in DESIGN.md §3); not claimed until its explorer exists and passes on the unchanged tree")})
    m={
      "version": 1,
      "setup_cmd": "cd /verif && ./setup.sh",
      "hooks": {
        "guard": "wowrs_verif",
        "enable": "RUSTFLAGS='--cfg wowrs_verif' (set only by the loom-based checks, own CARGO_TARGET_DIR); all other checks build /repo unmodified",
        "baseline_off_cmd": "cd /repo && cargo nextest run --workspace --no-fail-fast --tool-config-file pb:/w/lib/nextest.toml --profile pb --test-threads 8 --offline || cargo test --workspace --no-fail-fast --offline",
        "source_commits": [],
        "add_only": True,
      },
      "engines": [
        {"name":"xplore","path":"/verif/harness/vcore","serves_properties":sorted(CHECKS),"kind_free_text":"bounded-exhaustive enumerator over finite case spaces with worker subprocesses, crash/hang attribution, deterministic double replay, known-finding matcher"},
      ],
      "checks": checks,
      "not_applicable": na,
      "notes": "See DESIGN.md. Exit protocol: 0 held / 1 VIOLATION / 2 machinery failure.",
    }
    json.dump(m, open("/verif/MANIFEST.json","w"), indent=1)
    try:
        import jsonschema
        jsonschema.validate(m, json.load(open("/root/.vp/MANIFEST.schema.json")))
        print("MANIFEST valid;", len(checks), "checks")
    except ImportError:
        print("jsonschema unavailable; not validated")
main()
