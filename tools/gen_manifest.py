#!/usr/bin/env python3
"""Generates /verif/MANIFEST.json from the table below (single source of truth) and validates it."""
import json, sys
CHECKS = {
 "C04": dict(cat="exploration", engine="xplore", design="DESIGN.md §3 C04",
   technique="bounded-exhaustive enumeration of the stated finite domains (all <=2-char strings, all 1280 table entries, all 2^32 keys in thorough) executed on the real functions and compared with an independent reference implementation",
   text="Every element of the finite domains the property names is executed on the real code and compared with an independently written reference (crypt-table recurrence, MPQ name hash, block cipher, lookup3); inversion is checked on every key. Exhaustive within the stated alphabets; nothing is claimed for longer strings beyond the enumerated families.",
   note="Trusted: refimpl (independent re-implementation from the published algorithms), rustc. &str API restricts reachable bytes (stated in evidence)."),
}
CHECKS["C01"]=dict(cat="exploration", engine="xplore", design="DESIGN.md §3 C01",
   technique="bounded-exhaustive enumeration of the full builder-configuration product x content classes, of per-file option mixes inside one archive, and of a file-count ladder (0..1025, thorough ..8193) x version x listfile x table compression x attributes x crypto; each archive built with the real ArchiveBuilder and read back through the real Archive under every name spelling, judged against the added (name, bytes) list",
   text="Every tuple of the configuration product (version x sector shift x compression x crypto x sector CRC x attributes x listfile x table compression) x content texture is built and read back on the real code; file lengths sit on every sector boundary and names are forced to collide in the hash table. Exhaustive over the stated axes; nothing is claimed outside them.",
   note="Trusted: the generator's ground truth (names, bytes). Lossy ADPCM selectors judged on length only. build() returning Err is an accepted refusal.")
CHECKS["C03"]=dict(cat="exploration", engine="xplore", design="DESIGN.md §3 C03",
   technique="bounded-exhaustive enumeration of selector x input families (all short strings over boundary alphabets, run-length families around 0x80/0x81/0xFF, break-even sweeps, size ladder x textures; thorough: every length to 1100, ladder to 2^23, all 256 method bytes) through the real compress/decompress/decompress_secure; ADPCM: every pair of per-channel step signals as stereo and each alone as mono",
   text="Each (selector, input) of the enumerated families is compressed and decompressed by the real code under default SecurityLimits; oracle = identity, never-expands, raw-or-prefixed form. Exhaustive within the families; inputs up to 2^17 (quick) / 2^23 (thorough); 'not shrunk => stored raw' is an oracle of its own.",
   note="Compressor refusals (Err) are accepted and counted. ADPCM judged on length and channel sides only.")
CHECKS["C02"]=dict(cat="exploration", engine="xplore", design="DESIGN.md §3 C02",
   technique="bounded-exhaustive differential enumeration: every configuration of the published MPQ subset x content classes is written by one implementation and read by the other (library vs independent refimpl::mpqref), both directions; thorough adds V3/V4 headers (classic tables), sector checksums in the published layout (each side verifies the other's checksum sector, raw and compressed), (attributes), user-data prefix, deleted hash slots",
   text="Full product of the published-subset axes (V1/V2, shifts, none/zlib/bzip2, plain/encrypted/fix-key, single-unit, hash sizes, listfile) x 6 textures; each archive carries files on every sector-boundary length under colliding, directory-nested names and is cross-read bit for bit. The independent side breaks the same-code-on-both-sides symmetry of self round-trips (it found the full-path file key, the trailing-dword cipher step and whole-file decryption of uncompressed multi-sector files).",
   note="Trusted: refimpl::mpqref (independent reader/writer written from the published format; zlib/bzip2 streams via flate2/bzip2 crates).")
CHECKS["C16"]=dict(cat="exploration", engine="xplore", design="DESIGN.md §3 C16",
   technique="bounded-exhaustive enumeration of (target encoding x image size) x pixel classes x mipmap settings (thorough: 2633 sizes up to 65535-long strips, 37 targets, 9 pixel classes, and chained conversions through blp_to_image) through the real image_to_blp/encode_blp/parse_blp/blp_to_image, judged by structural equality, an independent byte-level header/offset walker and an independent RAW1/RAW3 decoder",
   text="Every (target, size) pair of the stated grids (all sizes 1..9/15..17/31..33 squared in quick, 1..33 squared plus powers of two and odd shapes in thorough) x 5 pixel classes x mip settings is encoded and parsed by the real code; an independent walker written from the format documentation checks header, offset table, mip chain and lossless pixels.",
   note="Trusted: props/c16/src/refblp.rs (independent walker/decoder), the image crate for JPEG level decode. Lossy encodings judged on structure only.")
CHECKS["C17"]=dict(cat="exploration", engine="xplore", design="DESIGN.md §3 C17",
   technique="bounded-exhaustive enumeration of all schemas up to 3 (quick) / 4-5 (thorough) fields over the field-kind alphabet, field-count ladder to 24, array/string/record-count ladders, WDB2/WDB5 containers x key positions x record-set classes, each written by the real DbcWriter and read through every real access path, judged against an independent DBC emitter/reader",
   text="Every schema of the bounded alphabet with every key option and record-count/key-order/string-layout class is emitted by an independent emitter, parsed, rewritten by the real writer and re-read through eager, lazy, mmap and parallel paths (several pool sizes) and all key-lookup methods; values, sizes, string de-duplication and path agreement are compared.",
   note="Trusted: props/c17/src/dbcref.rs (independent emitter/reader from the documented DBC layout). The parallel path is additionally run under loom with the rayon stand-in (props-sh/c17.sh, harness-sched/c17p): every interleaving of its chunk tasks up to the preemption bound.")
CHECKS["C18"]=dict(cat="exploration", engine="xplore", design="DESIGN.md §3 C18",
   technique="bounded-exhaustive enumeration of tile grids (incl. each of the 4096 single tiles) x flags (thorough: all 65536 MPHD words) x optional chunks x versions x conversion pairs and A->B->C chains, every state of a 9-tile universe for WDL, through the real WDT/WDL writers, readers and converters, plus all 4096 tile indices for the coordinate maps, judged by field equality, byte-identical second write and an independent chunk walker",
   text="All 4096 tile indices for the coordinate inversion; every grid/flag/version/object-shape combination of the stated axes for WDT and WDL is written, walked by an independent chunk walker (index order, MAOF targets), read back, rewritten and converted between all version pairs.",
   note="Trusted: props/c18/src/walker.rs (independent walker from the format docs). Derived fields (re-detected version, aliased MPHD words) excluded from equality.")
CHECKS["C13"]=dict(cat="exploration", engine="xplore", design="DESIGN.md §3 C13",
   technique="deviation-bounded exhaustive enumeration (all models within <=2 (quick) / <=3 (thorough) section deviations of an all-empty and an all-populated baseline x header versions x all 25 conversion pairs; byte-level seed files with key frames, also with key-frame arrays shared between tracks; thorough: conversion chains over all 125 version triples, load-edit-save, 300/65537-element sections; skin and anim layouts) through the real writer/parser/converter, judged by an independent container walker and field decoder, content equality and byte-identical rewrite",
   text="Every model within the deviation bound over 29 sections x population levels x 8 header numbers, every (from,to) conversion pair, every seed subset, skin layout and anim shape is written, walked by an independent decoder, parsed, rewritten and converted on the real code.",
   note="Trusted: props/c13 walker/indep/emit modules (independent of the crate). Derived offsets are masked in content comparison.")
CHECKS["C15"]=dict(cat="exploration", engine="xplore", design="DESIGN.md §3 C15",
   technique="deviation-bounded exhaustive enumeration (roots over 11 sites and groups over 10 sites within <=3/<=4 deviations of empty and full baselines x 5 versions; all 25 conversion pairs; thorough: full products of the quick levels, every list length 0..300, A->B->C conversion chains, every WmoEditor operation sequence up to length 4) through the real WmoWriter/WmoParser/parse_wmo/WmoConverter/WmoEditor, judged by an independent chunk walker, per-field content equality and byte-identical second write",
   text="Every root/group within the deviation bound x version, and every conversion pair, is written, walked by an independent chunk walker (tiling, counts, string-offset tables), parsed by both parsers and rewritten on the real code.",
   note="Trusted: props/c15/src/walk.rs. Only fields with a counterpart in the parsed type are compared; derived fields excluded.")
CHECKS["C14"]=dict(cat="exploration", engine="xplore", design="DESIGN.md §3 C14",
   technique="deviation-bounded exhaustive enumeration of builder inputs (27 sites / 86 core site values within <=2 (quick) / <=3 (thorough) deviations of a minimal, a full and a staggered baseline x 6 versions; thorough: 121 values, full products of the per-chunk and top-level sites, conversions between all versions) through the real AdtBuilder/serialiser/parse_adt and 3 rounds of parse->rebuild on two paths, judged by an independent chunk walker (tiling, MHDR/MCIN/MCNK offset tables), content equality with the input and no-growth/fixed-point relations",
   text="Every builder input within the deviation bound x version is built, serialised, walked by an independent chunk walker, parsed and compared with the input; then parse->rebuild->serialise is iterated three times on both rebuild paths and checked for content stability and no growth.",
   note="Trusted: props/c14/src/walker.rs. Both documented conventions for MCIN sizes / sub-offset bases are accepted as long as a file sticks to one. Builder refusals (documented) are accepted.")
CHECKS["C06"]=dict(cat="model_checking", engine="histbfs", design="DESIGN.md §3 C06",
   technique="explicit-state search over the real implementation: states are closed archive images (canonical key = file bytes minus the time-stamped attributes payload) plus the reference map; from every state every operation sequence up to length L over the add/replace/remove/rename/compact/flush alphabet is executed on a real MutableArchive, closed, reopened and compared with a BTreeMap driven by the library's own return values; successor images are deduplicated and expanded for several epochs; plus scripted long histories",
   text="Bounded-exhaustive over operation histories from 6 (quick) / 20 (thorough) initial archives (V1..V4 x listfile x attributes from the real builder, plus independently written archives with 4- and 8-slot hash tables): every sequence of <=2 operations per epoch over a 28..93-event alphabet with colliding names, other-spelling names, four content classes and five add options, chained over 2-3 epochs through deduplicated archive states. Every transition is executed on the real code (no separate model to conform).",
   note="Trusted: the reference BTreeMap; refimpl::mpqref for small-table initial archives. Judged only after close+reopen. Known findings prune their successors (count in evidence).")
CHECKS["C08"]=dict(cat="model_checking", engine="histbfs", design="DESIGN.md §3 C08",
   technique="explicit-state search to closure over the model chain state (ordered (archive, priority, insertion rank) lists over 4 archives x 3 priorities), every enabled event executed on a real PatchChain rebuilt by history replay and every pool name looked up against the model; plus exhaustive enumeration of COPY/BSD0 patch files from an independent encoder (well-formed and every field/payload byte altered) read through a real base+patch chain, and of stacks of 2 (thorough 3) patches / full replacements over 5 file versions incl. patches made against the wrong predecessor; plus stateless exploration under a controlled scheduler (loom + rayon stand-in) of from_archives_parallel / add_archives_parallel: every interleaving of the per-archive load tasks up to preemption bound 2 (thorough 3) on the real code, outcome compared with the model and required to be schedule independent",
   text="The chain state space is finite and explored to closure (10k states, 136k transitions in quick): add/remove/set_priority/clear/parallel add/parallel constructors from every reachable state, each executed on the real PatchChain and compared (read_file, contains_file, find_file_archive, list) with a stable-sorted reference list. Patch application: all control programs of <=2 triples over boundary values x 4 base files, plus every 32-bit header field x 8 boundary values and every payload byte x 2 flips; Ok results must match the declared digest.",
   note="Trusted: refimpl::ptch (independent PTCH/BSD0/RLE encoder and reference applier), refimpl::mpqref (patch-flagged entries), MD5. Tie order after set_priority accepts both readings. Parallel loading is additionally run under loom (props-sh/c08.sh, harness-sched/c08p): 3.3k cases / 0.4 M schedules in quick, 28 k cases / 187 M schedules in thorough; on real rayon a completion-order dependence shows only as a flaky result.")
CHECKS["C09"]=dict(cat="model_checking", engine="sched", design="DESIGN.md §3 C09, §2 E3",
   technique="stateless exploration under a controlled scheduler: wow-mpq compiled against a loom-backed rayon stand-in, every interleaving of task claim/start/finish (three read-modify-write operations on shared loom atomics per task) up to preemption bound 2 (quick) / 3 (thorough), 1..3 (thorough 1..4) workers, executed on the real extraction entry points and compared with sequential reads; plus an exhaustive configuration sweep (threads x batch x list length x skip x missing position) on the real rayon",
   text="Schedules: 641 cases (10 entry points x request lists from {p,q,duplicate,missing,unreadable} in every order x skip x workers 1..3) each run under loom::model; 165k schedules in quick; every schedule's result is compared slot-by-slot with Archive::read_file and the result set per case must be a singleton. Configurations: the full 7x5x9x2x4 product on real rayon decides the configuration clause.",
   note="Trusted: loom; the rayon contract modelled by /verif/harness-sched/rayon. Code between loom operations is atomic to the explorer (data races inside a task body are out of reach).")
CHECKS["C07"]=dict(cat="exploration", engine="xplore", design="DESIGN.md §3 C07",
   technique="bounded-exhaustive enumeration of (source archive x rebuild option tuple): sources over version x crypto x compression x listfile x attributes x file-set shapes from the real builder plus independently written foreign archives; options = target x compression override x block-size override x 5 booleans (all tuples within 2 deviations of the default in quick, full product in thorough); each rebuilt by the real rebuild_archive and judged against generator ground truth, an independent census of the target tables and compare_archives",
   text="Every (source, option tuple) pair of the stated product is rebuilt on the real code; the expected file set comes from the generator, the target is read back bit for bit, excluded files must be absent, summary counts must be truthful, and compare_archives must report no content difference.",
   note="Trusted: generator ground truth, refimpl::mpqref census. Err without a target is an accepted refusal.")
CHECKS["C10"]=dict(cat="fault_enumeration", engine="xplore", design="DESIGN.md §3 C10",
   technique="exhaustive single-fault enumeration: every byte offset of every protected region (file data, sector offset/CRC tables, attributes arrays, V4 header/table digests and digested tables, signed bytes and signature) of a catalogue of small archives x fault values (bit flips, 0x00/0xFF, 2- and 4-byte overwrites, 8/16-byte zero runs inside one file's protection domain), each faulted archive read and verified by the real library and C API in a forked child; all single-bit flips of signed buffers and signatures for the signature primitive",
   text="All protected byte offsets of 39 (quick) / 78 (thorough) archives covering 12 metadata kinds are faulted one at a time; the property's disjunction is judged exactly (violation only if a read returns Ok with altered content and every applicable verify operation still succeeds). Intact archives must verify everywhere.",
   note="Trusted: refimpl::mpqref layout map plus knowledge of the builder's layout for locating regions; faulted evaluations run in forked children with an address-space limit (abort/panic counts as failure reported).")
CHECKS["C11"]=dict(cat="exploration", engine="xplore", design="DESIGN.md §3 C11",
   technique="bounded-exhaustive enumeration of an entry-name grammar (components from {.., ., empty, a, B.txt, C:, con, 251 x, non-ASCII, blank} joined by either separator, with anchored absolute / drive prefixes, up to 2-3 (thorough 3-4) components, plus the descend-then-climb family {..,a}^k B.txt) x preserve-paths x patch-chain x whole/explicit extraction, each run through the real CLI in a fresh jail, observed by a recursive before/after snapshot and by the strace log of mutating path-taking system calls",
   text="Every name of the grammar bound x 8 modes is extracted by the real binary from an archive written by the independent writer (names are not normalised); nothing outside out/ may be created or changed according to both observers. Only containment is judged.",
   note="Trusted: strace, the snapshot walker, refimpl::mpqref writer. The tool runs as an unprivileged uid inside the jail so an escape cannot leave the scratch directory.")
CHECKS["C20"]=dict(cat="exploration", engine="xplore", design="DESIGN.md §3 C20",
   technique="bounded-exhaustive enumeration of (file set x create options x extract options) round trips (also through a patch chain, and at 1000/1001/1030 members where the extraction strategy changes), of `mpq list --filter` patterns, and of (sub-command template x seed file x damage class) for all 173 sub-command templates of every format family, each executed as a real CLI process and judged by five sound uniform rules against the in-process library view",
   text="Full product of create/extract options on 6-10 file sets (bit-identical round trip, list/info agree with the library); every sub-command x seed x damage class (nonexistent, empty, garbage, truncations, 0xFFFFFFFF fields, 0xFF windows): exit status must be non-zero where the rules demand it and every exit-0 output must exist and parse.",
   note="Trusted: the in-process library oracle for 'parse Ok', process exit codes. No rule is applied where 'what was asked' is ambiguous.")
CHECKS["C12"]=dict(cat="fault_enumeration", engine="faultfs", design="DESIGN.md §3 C12, §2 E4",
   technique="exhaustive crash-point and I/O-error enumeration on the real write path: the file-system calls of each write history (ArchiveBuilder::build V1..V4 x destination present/absent x payload x optional writer stages; rebuild_archive; MutableArchive::compact) are recorded with strace (33 system calls incl. copy_file_range/sendfile/fchmod), then the history is re-run once per (system call, k) with the process killed before the k-th call (strace inject signal=KILL) and with the k-th call failing with ENOSPC/EIO/EACCES, plus short-write caps via an LD_PRELOAD shim; after every run the destination is compared with its previous bytes and with the expected complete archive",
   text="Every file-system call that touches the destination directory in every recorded history is a crash point and an error-injection point (1405 faulted runs in thorough); the destination must be byte-identical to its previous content (or absent) or open and read back every expected file; a build that returned Err must have left the previous state. Two fault-free recordings must issue the same call sequence.",
   note="Trusted: strace as injector/observer, kernel rename atomicity. Process death and I/O errors only (no power-loss block reordering: the code issues no fsync before rename). Temp litter tolerated and counted.")
CHECKS["C05"]=dict(cat="exploration", engine="xplore", design="DESIGN.md §3 C05",
   technique="deviation-bounded exhaustive enumeration over 124 (thorough 206) valid seed files of all ten formats: every prefix length (quick strided above 160 bytes, thorough every byte), every located 32-bit size/offset/count/flag field x 10 (thorough 20) boundary values (incl. plaintext fields inside the encrypted MPQ tables, re-encrypted), chunk delete/duplicate/swap (thorough: resizes, sibling pair swaps/deletes, trailing data), and in thorough all pairs of header-level sites plus all neighbouring pairs; each deviated input is fed to every public parse/open/list/read entry point in a forked child under a counting allocator with a hard cap, an alarm and signal handlers",
   text="Every 0- and 1-deviation input of the stated alphabet (147 k cases quick, 2.6 M thorough incl. 2-deviation pairs) is run through every public entry point of the MPQ, M2/skin/anim, ADT, WMO, BLP, DBC, WDT and WDL crates; monitors: no panic (overflow checks on), no abort/signal, no watchdog expiry, no single request or peak heap above 256 MiB + 4096 x input length.",
   note="Trusted: the forked-child sandbox and counting allocator (vcore::alloc); the independent chunk/structure maps used to locate fields. Allocation threshold sits above everything the library's documented limits allow.")
PENDING={}
CHECKS["C19"]=dict(cat="model_checking", engine="histbfs", design="DESIGN.md §3 C19",
   technique="(threads) stateless exploration under loom: storm-ffi compiled with hook H1 so its Mutex/LazyLock/thread_local are loom's; 23 hand-written scenarios of 2-3 threads x 1-2 C-API calls plus, over 21 read-only and 11 writable calls on shared handles, every unordered pair and every unordered triple of single calls (2 and 3 threads) and every unordered pair of two-call sequences (107 k scenarios, 1.7 M schedules in quick; thorough adds every unordered triple of two-call sequences over a six-call core on three threads), all interleavings up to preemption bound 2/3, linearizability by differential against every sequential merge of the same calls (where a thread issues two calls next to a CloseArchive, whose three table purges are separate critical sections, the end state and each call's own result are compared instead); (sequential) explicit-state BFS over C-API call histories in forked children against a handle/cursor model and the Rust API",
   text="Threads: every interleaving of lock acquisitions for each scenario is executed on the real source; outcomes (return values + probes) must equal some sequential merge; no deadlock, panic or duplicate handle. Sequential: bounded-exhaustive call histories with stale/closed/null/forged handles and boundary buffer sizes, canaries on every buffer.",
   note="Trusted: loom, hook H1 facade (verif_sync). Code between two lock operations is atomic to the explorer; invalid pointers (as opposed to invalid handles/sizes) are the caller's contract.")
NOT_APPLICABLE = {}
import subprocess
HOOK_COMMITS=[l.split()[0] for l in subprocess.run(['git','-C','/repo','log','--format=%h %s'],capture_output=True,text=True).stdout.splitlines() if ' verif hook ' in ' '+l]
def main():
    checks=[]
    for pid,c in sorted(CHECKS.items()):
        checks.append({
          "property_id": pid,
          "quick_cmd": f"./check {pid} --tier quick",
          "thorough_cmd": f"./check {pid} --tier thorough",
          "evidence_file": f"/verif/evidence/{pid}.json",
          "replay_cmd_template": f"./check {pid} --replay {{path}}",
          "engine": c["engine"],
          "level_claimed": {"category": c["cat"], "text": c["text"], "design_ref": c["design"]},
          "level_note": c["note"],
          "technique": c["technique"],
        })
    allp=[json.loads(l)["id"] for l in open("/verif/properties.jsonl")]
    na=[]
    for pid in allp:
        if pid not in CHECKS:
            na.append({"property_id": pid, "reason": NOT_APPLICABLE.get(pid, "check not built yet in this round (planned in DESIGN.md §3); not claimed until its explorer exists and passes on the unchanged tree")})
    m={
      "version": 1,
      "setup_cmd": "cd /verif && ./setup.sh",
      "hooks": {
        "guard": "wowrs_verif",
        "enable": "RUSTFLAGS='--cfg wowrs_verif' (set only by the loom-based checks, own CARGO_TARGET_DIR); all other checks build /repo unmodified",
        "baseline_off_cmd": "cd /repo && cargo nextest run --workspace --no-fail-fast --tool-config-file pb:/w/lib/nextest.toml --profile pb --test-threads 8 --offline || cargo test --workspace --no-fail-fast --offline",
        "source_commits": HOOK_COMMITS,
        "add_only": True,
      },
      "engines": [
        {"name":"xplore","path":"/verif/harness/vcore","serves_properties":sorted(k for k,v in CHECKS.items() if v["engine"]=="xplore"),"kind_free_text":"bounded-exhaustive enumerator over finite case spaces with worker subprocesses, crash/hang attribution, deterministic double replay, known-finding matcher"},
        {"name":"histbfs","path":"/verif/harness/props/c06, /verif/harness/props/c08, /verif/harness/props/c19","serves_properties":sorted(k for k,v in CHECKS.items() if v["engine"]=="histbfs"),"kind_free_text":"explicit-state search over the real implementation: states reached by history replay, canonical-key dedup, reference model compared at every transition"},
        {"name":"faultfs","path":"/verif/harness/props/c12, /verif/faultfs","serves_properties":sorted(k for k,v in CHECKS.items() if v["engine"]=="faultfs"),"kind_free_text":"strace-driven fault injector (kill before / fail the k-th system call) and observer, LD_PRELOAD short-write shim"},
        {"name":"sched","path":"/verif/harness-sched","serves_properties":sorted(k for k,v in CHECKS.items() if v["engine"]=="sched"),"kind_free_text":"loom controlled scheduler with a loom-backed rayon stand-in ([patch.crates-io]) and loom-backed std::sync facade for storm-ffi"},
      ],
      "checks": checks,
      "not_applicable": na,
      "notes": "See DESIGN.md. Exit protocol: 0 held / 1 VIOLATION / 2 machinery failure.",
    }
    json.dump(m, open("/verif/MANIFEST.json","w"), indent=1)
    try:
        import jsonschema
        jsonschema.validate(m, json.load(open("/root/.vp/MANIFEST.schema.json")))
        print("MANIFEST valid;", len(checks), "checks")
    except ImportError:
        print("jsonschema unavailable; not validated")
main()
