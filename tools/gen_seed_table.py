#!/usr/bin/env python3
"""Regenerates the seed table of DESIGN.md §13 from /verif/seeded/*/meta.json (between the SEED-TABLE markers)."""
import json,glob,os,re
rows=[]
def short(s,n):
    s=re.sub(r'\s+',' ',s.strip())
    return s if len(s)<=n else s[:n-1].rsplit(' ',1)[0]+'…'
for d in sorted(glob.glob('/verif/seeded/*')):
    m=json.load(open(os.path.join(d,'meta.json')))
    c=m.get('confirmed',{})
    checks=re.search(r'patch\.diff (.*?) \(',c.get('checks_run',''))
    det=c.get('detected','?')
    verdict={'yes':'**caught**','after-strengthening':'missed at first → **caught** after strengthening','no':'**missed**'}.get(det,det)
    rows.append(f"| {os.path.basename(d)} | {short(m['summary'],230).replace('|','/')} | {short(m['needs'],170).replace('|','/')} | {verdict} ({checks.group(1) if checks else ''}): {short(c.get('note',''),260).replace('|','/')} |")
table="| seed | change | needs | result (quick tier of the named checks) |\n|---|---|---|---|\n"+"\n".join(rows)+"\n"
p='/verif/DESIGN.md'
s=open(p).read()
a=s.index('<!-- SEED-TABLE-BEGIN -->')+len('<!-- SEED-TABLE-BEGIN -->\n')
b=s.index('<!-- SEED-TABLE-END -->')
s=s[:a]+table+s[b:]
open(p,'w').write(s)
n=len(rows); st=sum('after strengthening' in r for r in rows)
print(f'{n} seeds, {st} after strengthening')
