#!/usr/bin/env python3
"""gen_seeder_prompt.py <ID> <k1,k2,..> -> prints the prompt for a fresh seeding agent.
Only the property text and one-line descriptions of changes already produced (so they are not
repeated) go into it; nothing about the checks."""
import json, sys, glob, os, re
pid, ks = sys.argv[1], sys.argv[2].split(',')
prop = None
for l in open('/verif/properties.jsonl'):
    p = json.loads(l)
    if p['id'] == pid:
        prop = p
text = json.dumps(prop, indent=1, ensure_ascii=False)
taken = []
for d in sorted(glob.glob(f'/verif/seeded/{pid}-*')):
    m = json.load(open(os.path.join(d, 'meta.json')))
    s = m.get('summary', '')
    s = re.sub(r'\s+', ' ', s)[:170]
    taken.append(s)
t = open('/verif/tools/seeder_prompt.md').read()
t = t.replace('{PROPERTY}', text).replace('{ID}', pid).replace('{N}', str(len(ks))).replace('{KS}', 'numbered ' + ', '.join(ks))
t = t.replace('{TAKEN}', '\n' + '\n'.join('  - ' + x for x in taken) if taken else '(none yet)')
print(t)
