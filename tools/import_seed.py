#!/usr/bin/env python3
"""import_seed.py <src dir> <seed id> <check ids> <detected: yes|no|after-strengthening> <note>"""
import json,sys,shutil,os
src,sid,checks,det,note=sys.argv[1:6]
dst=f'/verif/seeded/{sid}'
os.makedirs(dst,exist_ok=True)
for f in ('patch.diff','demo.rs'):
    shutil.copy(os.path.join(src,f),os.path.join(dst,f))
m=json.load(open(os.path.join(src,'meta.json')))
m['confirmed']={'how':'tools/verify_seed.sh: applied to a scratch worktree of /repo HEAD; cargo build --workspace warning-free; cargo nextest run --workspace passed (1265 tests); demo copied to <demo_crate_dir>/tests/verif_demo.rs fails with the change and passes without',
  'checks_run':f'tools/mutcheck.sh {dst}/patch.diff {checks} (private mount namespace, quick tier)','detected':det,'note':note}
json.dump(m,open(os.path.join(dst,'meta.json'),'w'),indent=1)
print('imported',sid)
