#!/usr/bin/env bash
# tools/mutcheck.sh <patch.diff> <ID> [<ID>...]   (env TIER=quick|thorough)
# Applies a patch to a scratch worktree of /repo HEAD, binds it over /repo in a PRIVATE mount
# namespace (the real /repo, evidence/ and replays/ are untouched) and runs the given checks.
set -u
PATCH="$(readlink -f "$1")"; shift
SLOT="${SLOT:-0}"
WT=/tmp/mut-wt-$$
SCR=/dev/shm/mut-scr-$$
git -C /repo worktree add -q --detach "$WT" HEAD || exit 2
if ! git -C "$WT" apply "$PATCH"; then echo "PATCH DOES NOT APPLY"; git -C /repo worktree remove --force "$WT"; exit 2; fi
mkdir -p "$SCR/evidence" "$SCR/replays"
TIER="${TIER:-quick}"
unshare -m bash -c "
  mount --bind '$WT' /repo && mount --bind '$SCR/evidence' /verif/evidence && mount --bind '$SCR/replays' /verif/replays || exit 2
  cd /verif
  export CARGO_TARGET_DIR=/verif/.target-mut$SLOT VERIF_SCHED_TARGET=/verif/.target-sched-mut$SLOT VERIF_CLI_TARGET=/verif/.target-mut$SLOT/repo-cli
  for id in $*; do
    echo \"=== \$id ($TIER) on mutant\"
    ./check \$id --tier $TIER 2>&1 | grep -E 'VIOLATION|violation:|KNOWN-FINDING|MACHINERY|unknown_violations|error' | cut -c1-260 | awk 'NR<=12'
    echo \"rc=\${PIPESTATUS[0]}\"
  done
"
git -C /repo worktree remove --force "$WT"
rm -rf "$SCR"
