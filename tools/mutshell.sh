#!/usr/bin/env bash
# tools/mutshell.sh <patch.diff> '<shell command>' : like mutcheck.sh, but runs an arbitrary command in the private
# namespace, with its own target dirs (.target-mut2 / .target-sched-mut2) so that it can run next to a mutcheck.
set -u
PATCH="$(readlink -f "$1")"; shift
WT=/tmp/mut2-wt-$$; SCR=/dev/shm/mut2-scr-$$
git -C /repo worktree add -q --detach "$WT" HEAD || exit 2
if ! git -C "$WT" apply "$PATCH"; then echo "PATCH DOES NOT APPLY"; git -C /repo worktree remove --force "$WT"; exit 2; fi
mkdir -p "$SCR/evidence" "$SCR/replays"
unshare -m bash -c "
  mount --bind '$WT' /repo && mount --bind '$SCR/evidence' /verif/evidence && mount --bind '$SCR/replays' /verif/replays || exit 2
  cd /verif
  export CARGO_TARGET_DIR=/verif/.target-mut2 VERIF_SCHED_TARGET=/verif/.target-sched-mut2 VERIF_CLI_TARGET=/verif/.target-mut2/repo-cli CARGO_NET_OFFLINE=true
  $*
"
git -C /repo worktree remove --force "$WT"; rm -rf "$SCR"
