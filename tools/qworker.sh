#!/usr/bin/env bash
# tools/qworker.sh <slot> <queue file>: pops lines "seed <ID> <k> <checks..>" / "benign <TAG> <k> <checks..>" and runs them in this slot
export SLOT=$1; Q=$2
while [ ! -f "$Q.stop" ]; do
  line=$(flock "$Q.lock" bash -c "head -n1 '$Q' 2>/dev/null; sed -i 1d '$Q' 2>/dev/null")
  if [ -z "$line" ]; then sleep 15; continue; fi
  set -- $line
  kind=$1; shift
  case "$kind" in
    seed) /verif/tools/seed_one.sh "$@";;
    benign) /verif/tools/benign_one.sh "$@";;
  esac
done
