#!/usr/bin/env python3
"""Re-points the commit ids in known_findings.json `fixed:` entries at the current /repo history
(after a history rewrite) by matching commit subjects."""
import json,subprocess,re
p='/verif/known_findings.json'
k=json.load(open(p))
cur={}
for l in subprocess.run(['git','-C','/repo','log','--format=%h\t%s','9124e75..HEAD'],capture_output=True,text=True).stdout.strip().splitlines():
    h,s=l.split('\t',1); cur[s]=h
out=[];changed=0
for e in k['fixed']:
    m=re.match(r'(fixed: property=\S+ )(\S+)( .*)',e)
    old=m.group(2)
    subj=subprocess.run(['git','-C','/repo','log','-1','--format=%s',old],capture_output=True,text=True).stdout.strip()
    if subj in cur:
        if cur[subj]!=old: changed+=1
        out.append(m.group(1)+cur[subj]+m.group(3))
    else:
        print('UNMAPPED',e[:80]); out.append(e)
k['fixed']=out
json.dump(k,open(p,'w'),indent=2)
print('changed',changed,'of',len(out))
