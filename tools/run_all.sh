#!/usr/bin/env bash
# tools/run_all.sh <tier> [ids...] : runs checks sequentially, prints a one-line result each
TIER="${1:-quick}"; shift || true
IDS="$*"; [ -z "$IDS" ] && IDS=$(python3 -c "import json;print(' '.join(c['property_id'] for c in json.load(open('/verif/MANIFEST.json'))['checks']))")
cd /verif
for id in $IDS; do
  s=$(date +%s)
  out=$(./check $id --tier $TIER 2>&1); rc=$?
  e=$(date +%s)
  echo "$id $TIER rc=$rc wall=$((e-s))s :: $(echo "$out" | grep -E "^$id $TIER:" | tail -1) $(echo "$out" | grep -c '^KNOWN-FINDING') known"
  [ $rc -ne 0 ] && echo "$out" | grep -E 'violation:|MACHINERY|VIOLATION' | head -5 | cut -c1-300
done
