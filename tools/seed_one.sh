#!/usr/bin/env bash
# tools/seed_one.sh <ID> <k> [check ids]   (env SLOT, SEED_ROOT): verify + mutcheck one seed, result in /tmp/seed-res/<ID>-<k>.txt
ID=$1; K=$2; shift 2; CHECKS="${*:-$ID}"
mkdir -p /tmp/seed-res
{
  D=${SEED_ROOT:-/tmp/seed-out}/$ID/$K
  echo "##### $ID/$K verify"; /verif/tools/verify_seed.sh $D 2>&1 | tail -1
  echo "##### $ID/$K mutcheck ($CHECKS)"; /verif/tools/mutcheck.sh $D/patch.diff $CHECKS 2>&1 | grep -v conda | tail -14 | cut -c1-400
} > /tmp/seed-res/$ID-$K.txt 2>&1
