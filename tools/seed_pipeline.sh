#!/usr/bin/env bash
# tools/seed_pipeline.sh <ID> <k> [check ids]: verify a seed from /tmp/seed-out/<ID>/<k> and run the checks against it
ID=$1; K=$2; shift 2; CHECKS="${*:-$ID}"
D=${SEED_ROOT:-/tmp/seed-out}/$ID/$K
echo "##### $ID/$K verify"; /verif/tools/verify_seed.sh $D 2>&1 | tail -1
echo "##### $ID/$K mutcheck ($CHECKS)"; /verif/tools/mutcheck.sh $D/patch.diff $CHECKS 2>&1 | tail -8 | cut -c1-400
