#!/usr/bin/env bash
# tools/verify_seed.sh <dir with patch.diff demo.rs meta.json>
# Confirms, in a scratch worktree of /repo HEAD: the change applies, builds warning-free, the
# repository's own suite still passes with it, the demonstration fails with it and passes without.
set -u
D="$(readlink -f "$1")"
SLOT="${SLOT:-0}"
WT=/tmp/vs-wt-$$
export CARGO_TARGET_DIR=/tmp/vs-target-$SLOT CARGO_NET_OFFLINE=true CARGO_PROFILE_DEV_DEBUG=0 CARGO_PROFILE_TEST_DEBUG=0
crate=$(python3 -c "import json;print(json.load(open('$D/meta.json'))['demo_crate'])")
cdir=$(python3 -c "import json;print(json.load(open('$D/meta.json'))['demo_crate_dir'])")
git -C /repo worktree add -q --detach "$WT" HEAD || exit 2
cleanup() { git -C /repo worktree remove --force "$WT" 2>/dev/null; }
trap cleanup EXIT
cd "$WT"
git apply "$D/patch.diff" || { echo "RESULT apply=FAIL"; exit 1; }
cargo build --workspace --offline --color never >/tmp/vs-build-$SLOT.log 2>&1; b=$?
cargo nextest run --workspace --no-fail-fast --offline >/tmp/vs-suite-$SLOT.log 2>&1; s=$?
suite_line=$(grep -E 'Summary' /tmp/vs-suite-$SLOT.log | tail -1)
mkdir -p "$cdir/tests"; cp "$D/demo.rs" "$cdir/tests/verif_demo.rs"
cargo test -p "$crate" --test verif_demo --offline >/tmp/vs-demo-with-$SLOT.log 2>&1; dw=$?
git apply -R "$D/patch.diff"
cargo test -p "$crate" --test verif_demo --offline >/tmp/vs-demo-without-$SLOT.log 2>&1; dn=$?
echo "RESULT build=$b suite=$s ($suite_line) demo_with_change=$dw(expect!=0) demo_without=$dn(expect 0)"
[ $b -eq 0 ] && [ $s -eq 0 ] && [ $dw -ne 0 ] && [ $dn -eq 0 ]
